//! Kani proof harnesses over the compiled conserve crate (integer kernels only; see DESIGN.md §2.1).
#![allow(unused)]

#[cfg(kani)]
mod proofs {
    use conserve::entry::KindMeta;
    use conserve::verif_api::{index_entry_metadata_from, source_entry, timestamp_to_file_time};
    use conserve::{Apath, EntryTrait, IndexEntry, Kind, Owner, UnixMode};
    use jiff::Timestamp;

    /// C01 kernel: a file time as the kernel reports it (floor seconds + nanoseconds in 0..1e9), captured
    /// by the source walk as a jiff Timestamp, goes through IndexEntry::metadata_from -> (mtime, mtime_nanos)
    /// -> IndexEntry::mtime() -> ToFileTime and comes out as the same (seconds, nanoseconds) pair, without
    /// panicking.  Symbolic: sec in +-3e10 (years 1019..2920), every nanosecond value.
    #[kani::proof]
    #[kani::unwind(3)]
    fn mtime_roundtrip() {
        let sec: i64 = kani::any();
        let nsec: i32 = kani::any();
        kani::assume(nsec >= 0 && nsec < 1_000_000_000);
        kani::assume(sec > -30_000_000_000 && sec < 30_000_000_000);
        let ts: Timestamp = match Timestamp::new(sec, nsec) {
            Ok(t) => t,
            Err(e) => {
                std::mem::forget(e);
                kani::assume(false);
                unreachable!()
            }
        };
        kani::cover!(sec < 0 && nsec > 0, "pre-epoch with a fractional part");
        kani::cover!(sec >= 0 && nsec == 0, "post-epoch whole second");
        let src = source_entry(
            Apath::root(),
            KindMeta::File { size: 0 },
            ts,
            UnixMode::default(),
            Owner::default(),
        );
        let e = index_entry_metadata_from(&src);
        let back = e.mtime();
        assert!(back == ts, "IndexEntry::mtime() differs from the source mtime");
        let ft = timestamp_to_file_time(&back);
        assert!(ft.unix_seconds() == sec, "seconds handed to utimensat differ");
        assert!(ft.nanoseconds() == nsec as u32, "nanoseconds handed to utimensat differ");
        std::mem::forget(e);
        std::mem::forget(src);
    }

    /// Reachability twin: must FAIL (the final assertion is reachable), otherwise the harness above is vacuous.
    #[kani::proof]
    #[kani::unwind(3)]
    fn mtime_roundtrip_reachable() {
        let sec: i64 = kani::any();
        let nsec: i32 = kani::any();
        kani::assume(nsec >= 0 && nsec < 1_000_000_000);
        kani::assume(sec > 0 && sec < 30_000_000_000);
        let ts: Timestamp = match Timestamp::new(sec, nsec) {
            Ok(t) => t,
            Err(e) => {
                std::mem::forget(e);
                kani::assume(false);
                unreachable!()
            }
        };
        let src = source_entry(Apath::root(), KindMeta::File { size: 0 }, ts, UnixMode::default(), Owner::default());
        let e = index_entry_metadata_from(&src);
        let back = e.mtime();
        let ft = timestamp_to_file_time(&back);
        std::mem::forget(e);
        std::mem::forget(src);
        assert!(false, "reachability witness");
    }

    /// C10 kernel: the condition IndexEntry::check() imposes on decoded (mtime, mtime_nanos) is sufficient for
    /// IndexEntry::mtime() and ToFileTime not to panic (real jiff + filetime code).
    #[kani::proof]
    #[kani::unwind(3)]
    fn checked_decoded_mtime_never_panics() {
        let mtime: i64 = kani::any();
        let mtime_nanos: u32 = kani::any();
        kani::assume(mtime_nanos < 1_000_000_000);
        match Timestamp::new(mtime, mtime_nanos as i32) {
            Ok(_) => {}
            Err(e) => {
                std::mem::forget(e);
                kani::assume(false);
            }
        }
        kani::cover!(mtime < 0 && mtime_nanos > 0, "pre-epoch with nanos");
        let e = IndexEntry {
            apath: Apath::root(),
            kind: Kind::File,
            mtime,
            mtime_nanos,
            unix_mode: UnixMode::default(),
            owner: Owner::default(),
            addrs: Vec::new(),
            target: None,
        };
        let t = e.mtime();
        let ft = timestamp_to_file_time(&t);
        std::mem::forget(e);
    }
}
