#!/usr/bin/env python3
"""Regenerate the table of seeded changes in DESIGN.md (between the SEEDED-TABLE markers) from seeded/*/."""
import json, os, re
V = os.path.dirname(os.path.dirname(os.path.abspath(__file__)))
rows = ['| change | what it does | confirmed (suite passes, demo fails with / passes without) | check | verdict | how it shows |', '|---|---|---|---|---|---|']
for name in sorted(os.listdir(os.path.join(V, 'seeded'))):
    d = os.path.join(V, 'seeded', name)
    if not os.path.exists(os.path.join(d, 'meta.json')):
        continue
    meta = json.load(open(os.path.join(d, 'meta.json')))
    title = ''
    if os.path.exists(os.path.join(d, 'notes.md')):
        for l in open(os.path.join(d, 'notes.md')):
            if l.startswith('#'):
                title = re.sub(r'^#+\s*(C\d\d\s*)?[/—–-]*\s*(defect\s+\w+\s*)?[:—–-]*\s*', '', l.strip(), flags=re.I)
                break
    det = json.load(open(os.path.join(d, 'detection.json'))) if os.path.exists(os.path.join(d, 'detection.json')) else {}
    how = det.get('first_violation', '') or ' '.join(det.get('tail', [])[-1:])
    for op, r in (det.get('other_checks') or {}).items():
        how = (how + ' — ' if how else '') + 'also run against %s: %s' % (op, r.get('verdict'))
    if meta.get('rebased'):
        how = (how + ' — ' if how else '') + 'patch rebased onto the repaired tree'
    if meta.get('obsolete'):
        how = (how + ' — ' if how else '') + 'OBSOLETE: ' + meta['obsolete']
    if det.get('repo_head'):
        how = (how + ' ' if how else '') + '[at %s]' % det['repo_head']
    how = how.replace('|', '\\|')[:300]
    rows.append('| %s | %s | %s | %s %s | **%s** (%ss) | %s |' % (name, title.replace('|', '\\|')[:150], 'yes' if meta.get('confirmed') in (True, 'True', 'true') else 'NO',
                                                          det.get('property', meta.get('property')), det.get('tier', ''), det.get('verdict', 'not run'), det.get('seconds', '-'), how))
table = '\n'.join(rows)
p = os.path.join(V, 'DESIGN.md')
s = open(p).read()
if '@@SEEDED_TABLE@@' in s:
    s = s.replace('@@SEEDED_TABLE@@', '<!-- SEEDED-TABLE-BEGIN -->\n<!-- SEEDED-TABLE-END -->')
s = re.sub(r'<!-- SEEDED-TABLE-BEGIN -->.*<!-- SEEDED-TABLE-END -->', lambda m: '<!-- SEEDED-TABLE-BEGIN -->\n' + table + '\n<!-- SEEDED-TABLE-END -->', s, flags=re.S)
open(p, 'w').write(s)
print(len(rows) - 2, 'rows')
