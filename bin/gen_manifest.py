#!/usr/bin/env python3
"""Regenerate MANIFEST.json from the table below (single source of truth for claims)."""
import json, os
V = os.path.dirname(os.path.dirname(os.path.abspath(__file__)))
props = [json.loads(l)['id'] for l in open(os.path.join(V, 'properties.jsonl'))]

E2 = 'mirsym (bounded symbolic execution of rustc MIR, z3)'
BT = 'bounded symbolic execution of the MIR of the real backup() (GC-lock check, basis stitch, MergeTrees, Band::create, BackupWriter::{copy_entry,copy_file,copy_dir,copy_symlink,flush_group,finish}, FileCombiner, store_file_content, read_with_retries, BlockDir::store_or_deduplicate, IndexWriter::finish_hunk, Band::close) over a symbolic transport store and a modelled source side, z3 deciding file sizes vs max_block_size / small_file_cap / max_entries_per_hunk'
CLAIMS = {
 'C11': dict(engine='mirsym', technique='bounded symbolic execution of the MIR of Apath::{is_valid,cmp,append} and of source::Iter::{new,next,visit_next_directory} (over a directory model with symbolic names) with z3; oracle = independent z3 statement of the documented order; counterexamples replayed natively',
   text='For every pair (triple) of paths of up to N code points over the whole Unicode scalar range the solver shows Apath::cmp equals the documented total order, is antisymmetric/transitive, Equal only for identical strings, and is_valid equals the documented rule; bounded-holds within N (8 quick / 10-12 thorough), nothing claimed beyond. Walk clause: for directory trees of fixed shape (depth <= 3 quick / 4 thorough, <= 8 entries) whose names are symbolic strings of 1-2 code points handed over by read_dir in arbitrary order, the real walk emits every entry exactly once in strictly increasing documented order.',
   note='Trusted: rustc MIR printer, mirsym parser/interpreter and its str/Option models (differentially validated against the real crate on the repository test vectors + seeded vectors each run), z3. Byte-wise str comparison modelled as code-point order. read_dir / DirEntry / metadata are served by a directory model and entry_from_fs_metadata is stubbed (kinds from the model). The written-index ordering clause is covered by the C13 writer harness and the listing clause by C08, not here.',
   design='§3 C11'),
 'C12': dict(engine='mirsym', technique='bounded symbolic execution of the MIR of Apath::is_prefix_of with z3 against a whole-component ancestry oracle; native replay',
   text='For every pair of valid paths of up to N code points (any scalar value) is_prefix_of equals "same path, root, or ancestor by whole components"; bounded-holds within N (8 quick / 10 thorough).',
   note='Trusted: MIR printer, mirsym + str models (differentially validated each run), Store/JSON models, z3. Second obligation: Stitch::next with a subtree filter over two-band stitched versions with two-level symbolic paths equals the whole-component rule. Third: restore with only_subtree over the file-system model restores exactly the entries under the subtree (names extending one another, non-ASCII).',
   design='§3 C12'),
 'C08': dict(engine='mirsym', technique='bounded symbolic execution of the MIR of Stitch::next / IndexHunkIter::next / Band::open / previous_existing_band over a symbolic archive store with z3, against an independently written stitching rule; native replay on an archive written directly in the documented format',
   text='For every arrangement of up to 3 (quick) / 4 (thorough) bands, each absent / headless / headless-with-tail / open / closed, each with one of 7-8 hunk layouts (empty hunk, gap, up to 2-3 hunks), and every relative order of the symbolic entry paths across bands, the listing produced by the real state machine equals the stitching rule, is strictly increasing, reports no spurious error and terminates; bounded-holds within those shapes.',
   note='Trusted: MIR printer, mirsym and its Vec/iterator/Option models, the Store transport model (mirsym/env.py), Snappy+JSON modelled as exact inverses, z3. Entry paths are "/"+one symbolic code point here; two-level paths with a subtree filter are exercised by the C12 check.',
   design='§3 C08'),
 'C05': dict(engine='mirsym', technique='bounded symbolic execution of the MIR of Archive::delete_bands, referenced_blocks, GarbageCollectionLock::{new,break_lock,check,release,drop}, Band::delete, BlockDir::delete_block over a symbolic archive store; crash point and failing step are solver-chosen; native replay through the verif_hooks transport interceptor',
   text='For each of a set of small archive shapes (2-3 bands, shared/private/garbage blocks, symbolic block lengths and address offsets, gaps, incomplete newest band, stale lock), every delete set, dry-run/real, with and without break_lock: the solver explores every crash point and every single failing read/list/metadata step with each error kind, and shows that remaining complete bands keep all blocks, only requested bands / unreferenced blocks / the lock are removed, no garbage remains after success and a dry run mutates nothing. Bounded to those shapes.',
   note='Trusted: MIR printer, mirsym + models, the Store transport model, list_blocks modelled (tokio JoinSet not executed), remove_dir_all atomic, Snappy/JSON inverse, hash injective, z3. Histories are not explored: the pre-state is an arbitrary archive satisfying the stated invariant.',
   design='§3 C05', category='fault_enumeration'),
 'C03': dict(engine='mirsym', category='fault_enumeration', technique=BT + '; the crash step k (before any storage step, or inside any write leaving an empty file) is a solver variable; post-crash store checked by an independent reader, then the real Stitch and a follow-up backup are run on it; native replay through verif_hooks',
   text='For each source shape (1-3 entries of files/dirs/symlinks, symbolic sizes and options, with and without a previous version) the solver explores every crash point of the storage trace: after each, every hunk present names only present blocks holding exactly the right bytes, earlier files are untouched, every version lists per the stitching rule without errors, and a follow-up backup completes, is exact and rewrites nothing. Bounded to the listed cases.',
   note='Trusted: MIR printer, mirsym + models, Store model (operations atomic except the empty-file state), source/file-read model, hash injective, Snappy/JSON inverse, z3. Restoring the bytes is checked as address provenance, not by running restore().', design='§3 C03'),
 'C04': dict(engine='mirsym', category='fault_enumeration', technique=BT + '; the failing step k and its error kind are solver variables; native replay through verif_hooks',
   text='For each source shape the solver explores every single storage step failing with each of four error kinds: no panic, earlier files untouched, every recorded file entry resolves to exactly its own bytes (never another file\'s, never a missing/short block), and a result with no error returned or counted implies a closed band listing the whole source. Bounded to the listed cases and to one fault per run.',
   note='Trusted: as C03. Multi-fault sequences are outside the claim.', design='§3 C04'),
 'C07': dict(engine='mirsym', technique=BT + ' with a write-once monitor inside the store model; Band::create over all subsets of existing band directories',
   text='Across fault-free, crashed, (thorough: faulted) and resumed backups on archives with a previous version (written by a real earlier backup or directly in the documented format): no pre-existing path is removed or rewritten, no non-empty path is written twice, and Band::create picks an id above every existing directory (gaps, headless newest band). Bounded to the listed cases.',
   note='Trusted: as C03. Not covered: two racing backups; the local Protocol::write implementation itself (it ignores CreateNew today; see DESIGN §C07) -- the store model mirrors that behaviour and the monitor flags any overwrite.', design='§3 C07'),
 'C13': dict(engine='mirsym', technique=BT + '; the resulting store is read back by an independent reader of doc/format.md',
   text='For each fault-free backup over the listed shapes (symbolic sizes/options, incremental, symbolic mtimes, nested names around "/"): hunks numbered 0..n-1, none empty, entries strictly increasing within and across hunks under an independent comparator, tail count = hunk count, blocks under d/<first 3 hex>/<hash> and holding the content that hashes to the name, every address inside its block and resolving to the file\'s bytes, lengths sum to the size, only files carry addresses, only symlinks a target; hunk naming checked on boundary numbers.',
   note='Trusted: as C03; the literal JSON/Snappy/BLAKE2 byte encodings are modelled, not decoded.', design='§3 C13'),
 'C14': dict(engine='mirsym', technique=BT + '; storage trace of a second backup of an unchanged tree, and of a backup resumed after a solver-chosen crash point',
   text='A second backup of an unchanged tree issues no write under d/ and records the same addresses; no run (including the follow-up after any crash point) writes a block that is already stored non-empty. Bounded to the listed cases.',
   note='Trusted: as C03.', design='§3 C14'),
 'C01': dict(engine='kani+mirsym', technique='Kani/CBMC proof harness over the compiled crate (real jiff + filetime code) for the mtime round trip, plus bounded symbolic execution of the MIR of restore()/restore_file/restore_symlink/apply_deferrals/set_permissions/set_owner over a file-system model and of backup() over the store model, z3',
   text='Kani shows for every mtime in +-3e10 s with any nanosecond value that capture -> index fields -> IndexEntry::mtime -> FileTime is the identity without panic (a reachability twin guards vacuity). mirsym shows that restore reproduces kind, bytes, link target, mtime, all 12 mode bits and owner for files, an empty file, a nested file, directories and a symlink with symbolic attributes (chown permitted or not), and that a fault-free backup of the listed shapes records the source metadata and addresses resolving to exactly each file\'s bytes for every relation between sizes and the three options.',
   note='Trusted: Kani/CBMC; MIR printer, mirsym + models, FS model (follow/no-follow and chown-clears-setuid rules from the man pages), store/source models, z3. The real directory walk, non-UTF-8 names and trees beyond the bound are outside; backup->restore is composed through the archive entry, not run end to end symbolically.', design='§3 C01'),
 'C16': dict(engine='mirsym', technique='bounded symbolic execution of the MIR of restore() and its helpers (including the real owner::unix::set_owner) over a file-system model with sentinels outside the destination; symlink target, owner presence and mode are solver variables; native replay into a sandbox',
   text='For one-version archives and for an interrupted version stitched over a directory (with nested children two levels deep, the link target holding a same-named real subdirectory) that became a symlink, with the link target chosen by the solver from upward, absolute, to-a-directory, to-a-file, "." and "..": no modelled system call creates, removes or changes (content, mode, owner, mtime) anything outside the destination; is_valid(p) implies p[1..] is relative without ".."; a non-empty destination without overwrite is refused before any mutating call.',
   note='Trusted: as C01 for the FS model. Pre-existing hostile symlinks with overwrite, and the kernel\'s real follow semantics, are outside.', design='§3 C16'),
 'C18': dict(engine='mirsym', technique='bounded symbolic execution of the MIR of diff(), Diff::next, MergeTrees::next, EntryChange::diff_metadata, EntryMetadata::from and of backup() with a change callback, against an independently written classification; native replay on a raw archive + live tree',
   text='For each presence pattern of up to three paths (stored only / live only / both) with kind chosen by the solver on each side and size, mtime, mode symbolic, stored owner present or absent, two link targets: diff (with and without include_unchanged) and the next backup\'s callback report exactly added, removed and changed paths with the right classification.',
   note='Trusted: MIR printer, mirsym + models, Timestamp model, store/source models, z3. Directories and symlinks are not reported by the backup callback (files only, as the property says).', design='§3 C18'),
 'C09': dict(engine='mirsym', category='fault_enumeration', technique='bounded symbolic execution of the MIR of Archive::validate, validate_bands, validate_stored_tree, Band::validate, BlockDir::validate and the Stitch reader over the store model; the damaged file and the kind of damage are solver variables and "some version no longer restores as before" is decided by running the real reader before and after the damage; healthy side: the real backup() then the real validate',
   text='Damage side: for a one-version and a two-version history (newer band closed or open), every stored file deleted, emptied, made undecodable or (blocks) altered-but-decodable: whenever some version no longer lists/restores as before, full validation reports an error, and quick validation does unless only block contents changed. Healthy side: full and quick validation are silent on archives written by fault-free backups (one or two versions) and by backups interrupted after their header at every crash point.',
   note='Trusted: as C03; altered block bytes are modelled as "decodes to other content", the real Snappy/BLAKE2 code is not executed. Removal of a BANDTAIL, and deletion of a hunk of a band that has no tail (identical to an earlier interruption), are legal states and excluded.', design='§3 C09'),
 'C10': dict(engine='kani+mirsym', category='fault_enumeration', technique='bounded symbolic execution of the MIR of restore / list (Stitch) / validate / backup over an archive in which one index entry has solver-chosen decoded field values, or one stored file has solver-chosen damage; Kani kernel for the admitted mtime range',
   text='Decoded-field layer: with kind, mtime (any i64), nanos (any u32), target presence, an address with any start/len into a present or missing block, odd apaths and an unparseable band version, none of restore, list, validate, backup panics, and entries are not dropped without an error being reported. Containment layer: for one- and two-version histories and a history with a file stored in two blocks, with any single file deleted / emptied / garbage / altered, restore of every version does not panic, files whose hunk and blocks are untouched are restored exactly, lost or altered files are reported, and after deletion or truncation a new backup completes and is exact. Kani: every (mtime, nanos) admitted by IndexEntry::check() is safe for IndexEntry::mtime/ToFileTime.',
   note='Trusted: as C01/C03. Third-party decoders (snap, serde_json, hex, semver) are not executed: their robustness and hangs are outside; a band whose head is gone is not a version, what other versions stitched through it is outside.', design='§3 C10'),
 'C02': dict(engine='mirsym', technique=BT + ', of Archive::resolve_band_id / last_complete_band / last_band_id / list_band_ids, and of delete_bands, over the store model; the history claim is decomposed into per-operation preservation steps (C03/C04/C05/C07/C08/C13) plus the reuse decision and version selection decided here by z3 over symbolic mtimes, sizes and band-id sets; one bounded multi-step history explored in addition; native replay',
   text='Reuse step: for a basis entry and a source entry of the same file with solver-chosen (seconds, nanoseconds) mtimes and sizes, a file whose content changed (with a new mtime or size) is never recorded with the basis addresses, and an unchanged file is. Selection: for band-id sets drawn from {0,3,9998,9999,10000,100000} (up to 3 ids), each band open or closed, LatestClosed is the newest closed band and Latest the newest. History: backup(T1); backup(T2: one file rewritten, one added whose content exists in T1 under another name); delete the first version; backup(T2) again, with symbolic sizes/options: every completed, undeleted version resolves to its own snapshot after every step. Arbitrary histories are covered only as the composition of those per-operation steps, not searched.',
   note='Trusted: as C03/C05. The inductive decomposition is an argument in DESIGN.md, not something the solver checks; histories longer than the one explored, renames, kind changes and interrupted+resumed steps inside a history are covered only through the per-operation checks of C03/C07/C08.', design='§3 C02'),
 'C06': dict(engine='mirsym', technique='bounded symbolic execution of the MIR of the real backup() and the real Archive::delete_bands (gc) as two interpreter threads over one store model; a deterministic scheduler hands control over only immediately before a storage operation and the explorer enumerates every schedule up to a preemption bound (context-bounded model checking) while z3 decides sizes and data-dependent branches on each schedule; losing schedules are replayed natively by parking the real operations at the verif_hooks transport interceptor',
   text='One backup (tree containing a file whose bytes equal an unreferenced block already in the archive) against one gc on an archive with one complete version; which operation starts is free; every interleaving at storage-operation granularity with at most 2 (quick) / 3 (thorough) preemptions: after both finish, every complete version refers only to blocks that still exist. On the current tree one losing schedule class exists and is a recorded known finding; any losing schedule of another class is a violation.',
   note='Trusted: MIR printer, mirsym + models, Store model with atomic operations, scheduler in mirsym/harness/race.py, z3. Random schedules beyond the preemption bound are not explored (sampling is outside this technique); delete of a named version racing a backup is covered by the same code path (delete_bands) only with an empty delete set.', design='§3 C06'),
}
NA = {
 'C15': 'exclusion semantics live in globset/regex automata, which neither Kani nor the MIR interpreter can execute; a model of glob matching would verify the model, not conserve (DESIGN §4)',
 'C17': 'two-run hyperproperty over whole-program executions and the tokio scheduler; no bounded encoding of the real code is within reach (DESIGN §4)',
}
checks = []
for pid in props:
    if pid in CLAIMS:
        c = CLAIMS[pid]
        checks.append({
            'property_id': pid,
            'quick_cmd': 'bin/check %s quick' % pid,
            'thorough_cmd': 'bin/check %s thorough' % pid,
            'evidence_file': 'evidence/%s.json' % pid,
            'replay_cmd_template': 'replay/target/debug/verif-replay {path}',
            'engine': c['engine'],
            'level_claimed': {'category': c.get('category', 'model_checking'), 'text': c['text'], 'design_ref': c['design']},
            'level_note': c['note'],
            'technique': c['technique'],
        })
na = []
for pid in props:
    if pid not in CLAIMS:
        na.append({'property_id': pid, 'reason': NA.get(pid, 'check not built yet in this round (design in DESIGN.md §3); not claimed')})
m = {
 'version': 1,
 'setup_cmd': 'bin/setup',
 'hooks': {'guard': 'verif_hooks', 'enable': 'cargo feature verif_hooks (path dependency features = ["verif_hooks"])',
           'baseline_off_cmd': 'cd /repo && cargo test --workspace --no-fail-fast --offline',
           'source_commits': ['bcdf5db'], 'add_only': True},
 'engines': [
   {'name': 'mirsym', 'path': 'mirsym/', 'serves_properties': [p for p in CLAIMS if 'mirsym' in CLAIMS[p]['engine']],
    'kind_free_text': 'own bounded symbolic executor for rustc MIR text (-Zunpretty=mir of /repo, regenerated every run), path conditions decided by z3, counterexamples replayed against the real crate by replay/'},
   {'name': 'kani', 'path': 'kani/', 'serves_properties': [p for p in CLAIMS if 'kani' in CLAIMS[p]['engine']],
    'kind_free_text': 'Kani 0.68 / CBMC 6.11 proof harnesses over the compiled crate for integer kernels'},
 ],
 'checks': checks,
 'not_applicable': na,
 'notes': 'exit 0 bounded-holds / 1 violation reproduced natively / 2 inconclusive (never success). Known findings: known_findings.json.',
}
json.dump(m, open(os.path.join(V, 'MANIFEST.json'), 'w'), indent=1)
print('claims', sorted(CLAIMS), 'na', [x['property_id'] for x in na])
