//! diff() and the backup change callback on an archive written directly in the documented format plus a live tree.
use crate::roundtrip::make_tree;
use conserve::monitor::test::TestMonitor;
use conserve::*;
use serde_json::{json, Value};
use std::panic::{catch_unwind, AssertUnwindSafe};
use std::path::Path;
use std::sync::{Arc, Mutex};

fn bytes_for(class: u64, len: usize) -> Vec<u8> {
    let mut x = (class as u32).wrapping_mul(2654435761).wrapping_add(777);
    (0..len).map(|_| { x ^= x << 13; x ^= x >> 17; x ^= x << 5; (x & 0xff) as u8 }).collect()
}

/// stored: [{path, kind, size, mtime:[s,n], mode, user, group, target}]
fn write_archive(dir: &Path, stored: &Value) {
    std::fs::create_dir_all(dir.join("d")).unwrap();
    std::fs::write(dir.join("CONSERVE"), "{\"conserve_archive_version\":\"0.6\"}\n").unwrap();
    let bdir = dir.join("b0000");
    std::fs::create_dir_all(bdir.join("i/00000")).unwrap();
    std::fs::write(bdir.join("BANDHEAD"), "{\"start_time\":0,\"band_format_version\":\"0.6.3\",\"format_flags\":[]}\n").unwrap();
    let mut entries = Vec::new();
    for (i, e) in stored.as_array().unwrap().iter().enumerate() {
        let kind = e["kind"].as_str().unwrap();
        let mut j = json!({"apath": e["path"], "kind": kind, "mtime": e["mtime"][0], "mtime_nanos": e["mtime"][1],
                           "unix_mode": e["mode"], "user": e["user"], "group": e["group"]});
        if kind == "Symlink" {
            j["target"] = e["target"].clone();
        }
        if kind == "File" {
            let len = e["size"].as_u64().unwrap() as usize;
            if len > 0 {
                let data = bytes_for(1000 + i as u64, len);
                let h = hex::encode(blake2_rfc::blake2b::blake2b(64, &[], &data).as_bytes());
                let sub = dir.join("d").join(&h[..3]);
                std::fs::create_dir_all(&sub).unwrap();
                std::fs::write(sub.join(&h), snap::raw::Encoder::new().compress_vec(&data).unwrap()).unwrap();
                j["addrs"] = json!([{"hash": h, "len": len}]);
            }
        }
        entries.push(j);
    }
    let data = serde_json::to_vec(&entries).unwrap();
    std::fs::write(bdir.join("i/00000/000000000"), snap::raw::Encoder::new().compress_vec(&data).unwrap()).unwrap();
    std::fs::write(bdir.join("BANDTAIL"), "{\"end_time\":0,\"index_hunk_count\":1}\n").unwrap();
}

pub fn run(sc: &Value) -> Value {
    let tmp = tempfile::tempdir().unwrap();
    let arch = tmp.path().join("a");
    let src = tmp.path().join("src");
    let via_backup = sc["stored_tree"].is_array();
    if via_backup {
        // the stored version is written by the real backup() from a tree with the stored side's metadata (what conserve itself
        // records for such a tree), not directly in the documented format
        let src0 = tmp.path().join("src0");
        std::fs::create_dir_all(&src0).unwrap();
        make_tree(&src0, &sc["stored_tree"]);
        let a2 = arch.clone();
        let rt = tokio::runtime::Builder::new_current_thread().enable_all().build().unwrap();
        let ok = rt.block_on(async {
            let archive = Archive::create_path(&a2).await.unwrap();
            backup(&archive, &src0, &BackupOptions { small_file_cap: 1 << 10, ..BackupOptions::default() }, TestMonitor::arc()).await.is_ok()
        });
        if !ok {
            return json!({"error": "stored version could not be written by backup"});
        }
    } else {
        write_archive(&arch, &sc["stored"]);
    }
    std::fs::create_dir_all(&src).unwrap();
    make_tree(&src, &sc["live"]);
    let include_unchanged = sc["include_unchanged"].as_bool().unwrap_or(false);
    let want_backup = sc["backup_changes"].as_bool().unwrap_or(false);
    let r = catch_unwind(AssertUnwindSafe(|| {
        let rt = tokio::runtime::Builder::new_current_thread().enable_all().build().unwrap();
        rt.block_on(async {
            let archive = Archive::open_path(&arch).await.unwrap();
            let st = archive.open_stored_tree(BandSelectionPolicy::Latest).await.unwrap();
            let lt = SourceTree::open(&src).unwrap();
            let mut d = diff(&st, &lt, DiffOptions { include_unchanged, ..DiffOptions::default() }, TestMonitor::arc()).await.unwrap();
            let mut out = Vec::new();
            while let Some(c) = d.next().await {
                out.push(json!([c.apath.to_string(), c.change.sigil().to_string()]));
            }
            let mut res = json!({"diff": out});
            if want_backup {
                let events = Arc::new(Mutex::new(Vec::new()));
                let ev2 = events.clone();
                let opts = BackupOptions {
                    change_callback: Some(Box::new(move |c| {
                        ev2.lock().unwrap().push(json!([c.apath.to_string(), c.change.sigil().to_string()]));
                        Ok(())
                    })),
                    small_file_cap: 1 << 10,
                    ..BackupOptions::default()
                };
                let r = backup(&archive, &src, &opts, TestMonitor::arc()).await;
                res["backup_ok"] = json!(r.is_ok());
                res["backup_changes"] = json!(events.lock().unwrap().clone());
                // the version just made, compared with the very tree it was made from
                let st2 = archive.open_stored_tree(BandSelectionPolicy::Latest).await.unwrap();
                let lt2 = SourceTree::open(&src).unwrap();
                let mut d2 = diff(&st2, &lt2, DiffOptions::default(), TestMonitor::arc()).await.unwrap();
                let mut post = Vec::new();
                while let Some(c) = d2.next().await {
                    post.push(json!([c.apath.to_string(), c.change.sigil().to_string()]));
                }
                res["post_diff"] = json!(post);
            }
            res
        })
    }));
    match r {
        Ok(v) => v,
        Err(p) => {
            let msg = p.downcast_ref::<String>().cloned().or_else(|| p.downcast_ref::<&str>().map(|s| s.to_string()));
            json!({"panic": true, "message": msg})
        }
    }
}
