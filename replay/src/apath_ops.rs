use conserve::Apath;
use serde_json::{json, Value};
use std::panic::{catch_unwind, AssertUnwindSafe};

fn s(v: &Value) -> String {
    // strings are passed as arrays of code points so that any scalar value survives JSON
    v.as_array()
        .map(|a| a.iter().map(|c| char::from_u32(c.as_u64().unwrap() as u32).unwrap()).collect())
        .unwrap_or_else(|| v.as_str().unwrap_or("").to_string())
}

/// Apath without the validity assertion (what serde's derived Deserialize produces).
fn raw_apath(st: &str) -> Apath {
    serde_json::from_value(Value::String(st.to_string())).unwrap()
}

pub fn run_batch(sc: &Value) -> Value {
    let mut results = Vec::new();
    for item in sc["items"].as_array().unwrap() {
        let op = item["op"].as_str().unwrap();
        let a = s(&item["a"]);
        let b = s(&item["b"]);
        let r = catch_unwind(AssertUnwindSafe(|| match op {
            "is_valid" => json!(Apath::is_valid(&a)),
            "cmp" => json!(crate::ord_to_i(raw_apath(&a).cmp(&raw_apath(&b)))),
            "is_prefix_of" => json!(raw_apath(&a).is_prefix_of(&raw_apath(&b))),
            "append" => json!(raw_apath(&a).append(&b).to_string().chars().map(|c| c as u32).collect::<Vec<_>>()),
            _ => json!({"error": "op"}),
        }));
        results.push(match r {
            Ok(v) => v,
            Err(_) => json!({"panic": true}),
        });
    }
    json!({"results": results})
}
