//! Real-filesystem backup -> restore round trip for a scenario tree; reports every difference.
use conserve::monitor::test::TestMonitor;
use conserve::*;
use filetime::FileTime;
use serde_json::{json, Value};
use std::os::unix::fs::{MetadataExt, PermissionsExt};
use std::panic::{catch_unwind, AssertUnwindSafe};
use std::path::Path;

fn content(f: &Value) -> Vec<u8> {
    if let Some(a) = f["content"].as_array() {
        return a.iter().map(|b| b.as_u64().unwrap() as u8).collect();
    }
    let len = f["content_len"].as_u64().unwrap_or(0) as usize;
    let seed = f["content_class"].as_u64().unwrap_or(1) as u32;
    // deterministic, incompressible-ish bytes per content class
    let mut x = seed.wrapping_mul(2654435761).wrapping_add(12345);
    (0..len)
        .map(|_| {
            x ^= x << 13;
            x ^= x >> 17;
            x ^= x << 5;
            (x & 0xff) as u8
        })
        .collect()
}

pub fn make_tree(root: &Path, files: &Value) {
    // create in order; apply directory metadata last (children change the mtime)
    let list = files.as_array().unwrap();
    for f in list {
        let p = root.join(f["path"].as_str().unwrap().trim_start_matches('/'));
        match f["kind"].as_str().unwrap_or("File") {
            "Dir" => std::fs::create_dir_all(&p).unwrap(),
            "Symlink" => std::os::unix::fs::symlink(f["target"].as_str().unwrap(), &p).unwrap(),
            _ => std::fs::write(&p, content(f)).unwrap(),
        }
    }
    for f in list.iter().rev() {
        let p = root.join(f["path"].as_str().unwrap().trim_start_matches('/'));
        let kind = f["kind"].as_str().unwrap_or("File");
        if f["user_unnamed"].as_bool().unwrap_or(false) {
            let _ = std::os::unix::fs::lchown(&p, Some(54321), None);
        }
        if f["group_unnamed"].as_bool().unwrap_or(false) {
            // an owner of which only the user has a name (needs root; otherwise the file keeps the caller's ids)
            let _ = std::os::unix::fs::lchown(&p, None, Some(54322));
        }
        if kind != "Symlink" {
            if let Some(mode) = f["mode"].as_u64() {
                std::fs::set_permissions(&p, std::fs::Permissions::from_mode(mode as u32)).unwrap();
            }
        }
        if let Some(mt) = f["mtime"].as_array() {
            let ft = FileTime::from_unix_time(mt[0].as_i64().unwrap(), mt[1].as_u64().unwrap() as u32);
            if kind == "Symlink" {
                filetime::set_symlink_file_times(&p, ft, ft).unwrap();
            } else {
                filetime::set_file_times(&p, ft, ft).unwrap();
            }
        }
    }
}

pub fn snapshot(root: &Path) -> Vec<Value> {
    let mut out = Vec::new();
    fn walk(root: &Path, dir: &Path, out: &mut Vec<Value>) {
        let mut names: Vec<_> = std::fs::read_dir(dir).unwrap().map(|e| e.unwrap().file_name()).collect();
        names.sort();
        for n in names {
            let p = dir.join(&n);
            let md = std::fs::symlink_metadata(&p).unwrap();
            let rel = format!("/{}", p.strip_prefix(root).unwrap().to_string_lossy());
            let mt = FileTime::from_last_modification_time(&md);
            let mut j = json!({"path": rel, "mtime": [mt.unix_seconds(), mt.nanoseconds()], "uid": md.uid(), "gid": md.gid()});
            if md.file_type().is_symlink() {
                j["kind"] = json!("Symlink");
                j["target"] = json!(std::fs::read_link(&p).unwrap().to_string_lossy());
            } else if md.is_dir() {
                j["kind"] = json!("Dir");
                j["mode"] = json!(md.permissions().mode() & 0o7777);
            } else {
                j["kind"] = json!("File");
                j["mode"] = json!(md.permissions().mode() & 0o7777);
                let data = std::fs::read(&p).unwrap_or_default();
                j["len"] = json!(data.len());
                j["digest"] = json!(hex::encode(blake2_rfc::blake2b::blake2b(16, &[], &data).as_bytes()));
            }
            out.push(j);
            if md.is_dir() {
                walk(root, &p, out);
            }
        }
    }
    walk(root, root, &mut out);
    out
}

pub fn options(sc: &Value) -> BackupOptions {
    let o = &sc["options"];
    let d = BackupOptions::default();
    BackupOptions {
        max_entries_per_hunk: o["max_entries_per_hunk"].as_u64().map(|x| x as usize).unwrap_or(d.max_entries_per_hunk),
        max_block_size: o["max_block_size"].as_u64().map(|x| x as usize).unwrap_or(d.max_block_size),
        small_file_cap: o["small_file_cap"].as_u64().unwrap_or(d.small_file_cap),
        ..d
    }
}

pub fn diff_snapshots(a: &[Value], b: &[Value], compare_dir_mtime: bool) -> Vec<Value> {
    let mut out = Vec::new();
    let key = |v: &Value| v["path"].as_str().unwrap().to_string();
    let bm: std::collections::BTreeMap<String, &Value> = b.iter().map(|v| (key(v), v)).collect();
    let am: std::collections::BTreeMap<String, &Value> = a.iter().map(|v| (key(v), v)).collect();
    for (k, va) in &am {
        match bm.get(k) {
            None => out.push(json!({"path": k, "problem": "missing after restore"})),
            Some(vb) => {
                for field in ["kind", "target", "mode", "len", "digest", "mtime", "uid", "gid"] {
                    if field == "mtime" && va["kind"] == "Dir" && !compare_dir_mtime {
                        continue;
                    }
                    if field == "gid" && va["gid"] == 54322 {
                        // a group without a name cannot be recorded (the index stores names): nothing to compare
                        continue;
                    }
                    if va[field] != vb[field] {
                        out.push(json!({"path": k, "field": field, "source": va[field], "restored": vb[field]}));
                    }
                }
            }
        }
    }
    for k in bm.keys() {
        if !am.contains_key(k) {
            out.push(json!({"path": k, "problem": "extra after restore"}));
        }
    }
    out
}

pub fn run(sc: &Value) -> Value {
    let tmp = tempfile::tempdir().unwrap();
    let src = tmp.path().join("src");
    let arch = tmp.path().join("archive");
    let dest = tmp.path().join("dest");
    std::fs::create_dir_all(&src).unwrap();
    make_tree(&src, &sc["files"]);
    let before = snapshot(&src);
    let opts = options(sc);
    let r = catch_unwind(AssertUnwindSafe(|| {
        let rt = tokio::runtime::Builder::new_current_thread().enable_all().build().unwrap();
        rt.block_on(async {
            let archive = Archive::create_path(&arch).await.unwrap();
            let bm = TestMonitor::arc();
            let stats = backup(&archive, &src, &opts, bm.clone()).await;
            let backup_errors = bm.take_errors().iter().map(|e| format!("{e}")).collect::<Vec<_>>();
            let (backup_ok, stat_errors) = match &stats {
                Ok(s) => (true, s.errors),
                Err(_) => (false, 0),
            };
            let rm = TestMonitor::arc();
            let rr = restore(&archive, &dest, RestoreOptions::default(), rm.clone()).await;
            let restore_errors = rm.take_errors().iter().map(|e| format!("{e}")).collect::<Vec<_>>();
            let after = if dest.exists() { snapshot(&dest) } else { vec![] };
            json!({"backup_ok": backup_ok, "backup_err": stats.as_ref().err().map(|e| format!("{e}")),
                   "stat_errors": stat_errors, "backup_errors": backup_errors,
                   "restore_ok": rr.is_ok(), "restore_errors": restore_errors,
                   "mismatches": diff_snapshots(&before, &after, true)})
        })
    }));
    match r {
        Ok(v) => v,
        Err(p) => {
            let msg = p.downcast_ref::<String>().cloned().or_else(|| p.downcast_ref::<&str>().map(|s| s.to_string()));
            json!({"panic": true, "message": msg})
        }
    }
}
