//! Native replay driver: runs JSON scenarios against the real conserve crate.
//! Usage: verif-replay <scenario.json>   (prints one JSON document on stdout)
use serde_json::{json, Value};
use std::cmp::Ordering;

mod apath_ops;
mod backupops;
mod diffops;
mod formatscan;
mod gcops;
mod historyops;
mod localops;
mod raceops;
mod rawarchive;
mod restoreops;
mod roundtrip;
mod walkops;

fn main() {
    let path = std::env::args().nth(1).expect("scenario path");
    let text = std::fs::read_to_string(&path).expect("read scenario");
    let sc: Value = serde_json::from_str(&text).expect("parse scenario");
    let kind = sc["kind"].as_str().unwrap_or("");
    let out = match kind {
        "apath_batch" => apath_ops::run_batch(&sc),
        "stitch" => rawarchive::run_stitch(&sc),
        "select" => rawarchive::run_select(&sc),
        "roundtrip" => roundtrip::run(&sc),
        "gc" => gcops::run(&sc),
        "backup" => backupops::run(&sc),
        "diff" => diffops::run(&sc),
        "race" => raceops::run(&sc),
        "history" => historyops::run(&sc),
        "restore_raw" => restoreops::run(&sc),
        "walk" => walkops::run(&sc),
        "local_write" => localops::run(&sc),
        other => json!({"error": format!("unknown scenario kind {other}")}),
    };
    println!("{}", serde_json::to_string(&out).unwrap());
}

pub fn ord_to_i(o: Ordering) -> i64 {
    match o {
        Ordering::Less => -1,
        Ordering::Equal => 0,
        Ordering::Greater => 1,
    }
}
