//! delete_bands / gc on an archive written directly in the documented format, with an injected fault or crash.
use conserve::monitor::test::TestMonitor;
use conserve::transport::verif_hook::{self, Action};
use conserve::transport::ErrorKind;
use conserve::*;
use serde_json::{json, Value};
use std::collections::BTreeSet;
use std::panic::{catch_unwind, AssertUnwindSafe};
use std::path::Path;
use std::sync::atomic::{AtomicUsize, Ordering};
use std::sync::{Arc, Mutex};

fn block_bytes(class: u64, len: usize) -> Vec<u8> {
    let mut x = (class as u32).wrapping_mul(2654435761).wrapping_add(99991);
    (0..len)
        .map(|_| {
            x ^= x << 13;
            x ^= x >> 17;
            x ^= x << 5;
            (x & 0xff) as u8
        })
        .collect()
}

fn hash_hex(data: &[u8]) -> String {
    hex::encode(blake2_rfc::blake2b::blake2b(64, &[], data).as_bytes())
}

/// spec: {nblocks, bands:[null | {closed, hunks:[[ [block idx...] per entry ]]}], lock}
pub fn write_archive(dir: &Path, spec: &Value) -> Vec<String> {
    write_archive_c(dir, spec, &Value::Null)
}

/// `concrete` (optional): {block_lens: [..], addrs: [[band, hunk, entry, block, start, len], ..]} from the solver model.
pub fn write_archive_c(dir: &Path, spec: &Value, concrete: &Value) -> Vec<String> {
    std::fs::create_dir_all(dir.join("d")).unwrap();
    std::fs::write(dir.join("CONSERVE"), "{\"conserve_archive_version\":\"0.6\"}\n").unwrap();
    let nblocks = spec["nblocks"].as_u64().unwrap();
    let mut hashes = Vec::new();
    for j in 0..nblocks {
        let blen = concrete["block_lens"].get(j as usize).and_then(|x| x.as_u64()).map(|x| x.min(1 << 16) as usize).unwrap_or(20 + j as usize);
        let data = block_bytes(j + 1, blen);
        let h = hash_hex(&data);
        let sub = dir.join("d").join(&h[..3]);
        std::fs::create_dir_all(&sub).unwrap();
        std::fs::write(sub.join(&h), snap::raw::Encoder::new().compress_vec(&data).unwrap()).unwrap();
        hashes.push(h);
    }
    let mut tag = 0;
    for (b, band) in spec["bands"].as_array().unwrap().iter().enumerate() {
        if band.is_null() {
            continue;
        }
        let bdir = dir.join(format!("b{:04}", b));
        if band["bare"].as_bool().unwrap_or(false) {
            // a backup killed while creating its band: the directory (and its index directory), no head
            std::fs::create_dir_all(bdir.join("i")).unwrap();
            continue;
        }
        std::fs::create_dir_all(bdir.join("i").join("00000")).unwrap();
        std::fs::write(bdir.join("BANDHEAD"), "{\"start_time\":0,\"band_format_version\":\"0.6.3\",\"format_flags\":[]}\n").unwrap();
        let hunks = band["hunks"].as_array().unwrap();
        for (hn, hunk) in hunks.iter().enumerate() {
            let mut entries = Vec::new();
            for (k, blk) in hunk.as_array().unwrap().iter().enumerate() {
                tag += 1;
                let addrs: Vec<Value> = blk
                    .as_array()
                    .unwrap()
                    .iter()
                    .map(|j| {
                        let j = j.as_u64().unwrap() as usize;
                        let found = concrete["addrs"].as_array().and_then(|a| {
                            a.iter().find(|x| x[0].as_u64() == Some(b as u64) && x[1].as_u64() == Some(hn as u64) && x[2].as_u64() == Some(k as u64) && x[3].as_u64() == Some(j as u64))
                        });
                        match found {
                            Some(x) => json!({"hash": hashes[j], "start": x[4], "len": x[5]}),
                            None => json!({"hash": hashes[j], "len": 20 + j}),
                        }
                    })
                    .collect();
                entries.push(json!({"apath": format!("/f{}_{}_{}", b, hn, k), "kind": "File", "mtime": tag, "unix_mode": null, "addrs": addrs}));
            }
            let data = serde_json::to_vec(&entries).unwrap();
            std::fs::write(bdir.join("i").join("00000").join(format!("{:09}", hn)), snap::raw::Encoder::new().compress_vec(&data).unwrap()).unwrap();
        }
        if band["empty_last"].as_bool().unwrap_or(false) {
            // a backup killed inside the write of its next hunk
            std::fs::write(bdir.join("i").join("00000").join(format!("{:09}", hunks.len())), b"").unwrap();
        }
        if band["closed"].as_bool().unwrap_or(false) {
            std::fs::write(bdir.join("BANDTAIL"), format!("{{\"end_time\":0,\"index_hunk_count\":{}}}\n", hunks.len())).unwrap();
        }
    }
    if spec["lock"].as_bool().unwrap_or(false) {
        std::fs::write(dir.join("GC_LOCK"), "{}\n").unwrap();
    }
    hashes
}

fn kind_of(s: &str) -> ErrorKind {
    match s {
        "NotFound" => ErrorKind::NotFound,
        "AlreadyExists" => ErrorKind::AlreadyExists,
        "PermissionDenied" => ErrorKind::PermissionDenied,
        _ => ErrorKind::Other,
    }
}

/// Install a hook that acts at the `occurrence`-th (0-based) operation with this verb and path.
pub fn install_hook(fire: Option<(String, String, u64)>, what: &str, log: Arc<Mutex<Vec<(String, String)>>>) {
    install_hook_root(fire, what, log, None)
}

/// As `install_hook`; with `root` set, a write whose target already exists non-empty is logged as verb "rewrite".
pub fn install_hook_root(fire: Option<(String, String, u64)>, what: &str, log: Arc<Mutex<Vec<(String, String)>>>, root: Option<std::path::PathBuf>) {
    let seen = Arc::new(AtomicUsize::new(0));
    let what = what.to_string();
    verif_hook::set_callback(Some(Arc::new(move |verb: &str, path: &str, _content: Option<&[u8]>| {
        log.lock().unwrap().push((verb.to_string(), path.to_string()));
        if verb == "write" {
            if let Some(root) = &root {
                if std::fs::metadata(root.join(path)).map(|m| m.len() > 0).unwrap_or(false) {
                    log.lock().unwrap().push(("rewrite".to_string(), path.to_string()));
                }
            }
        }
        if let Some((fv, fp, occ)) = &fire {
            let path_matches = if let Some(prefix) = fp.strip_suffix('*') { path.starts_with(prefix) } else { path == fp };
            if verb == fv && path_matches {
                let n = seen.fetch_add(1, Ordering::SeqCst) as u64;
                if n == *occ {
                    return match what.as_str() {
                        "stop" => Action::Stop,
                        "empty_stop" => Action::EmptyThenStop,
                        k => Action::Fail(kind_of(k)),
                    };
                }
            }
        }
        Action::Proceed
    })));
}

/// scenario["fired"] = [model step index, verb, path, what, occurrence]
pub fn fire_of(sc: &Value) -> (Option<(String, String, u64)>, String) {
    match sc["fired"].as_array() {
        Some(f) => (
            Some((f[1].as_str().unwrap().to_string(), f[2].as_str().unwrap().to_string(), f.get(4).and_then(|x| x.as_u64()).unwrap_or(0))),
            f[3].as_str().unwrap().to_string(),
        ),
        None => (None, String::new()),
    }
}

pub fn scan(dir: &Path, spec: &Value, hashes: &[String]) -> Value {
    // independent scan: which bands are still complete, which of their blocks are missing
    let mut problems = Vec::new();
    let mut broken = Vec::new();
    let mut bands_left = Vec::new();
    for (b, band) in spec["bands"].as_array().unwrap().iter().enumerate() {
        if band.is_null() {
            continue;
        }
        let bdir = dir.join(format!("b{:04}", b));
        if !bdir.exists() {
            continue;
        }
        bands_left.push(b);
        let complete = bdir.join("BANDHEAD").exists() && bdir.join("BANDTAIL").exists()
            && band["hunks"].as_array().unwrap().iter().enumerate().all(|(hn, _)| bdir.join("i/00000").join(format!("{:09}", hn)).exists());
        // still listed with its tail (so it counts as a complete version) but no longer whole
        if bdir.join("BANDTAIL").exists() && !complete {
            broken.push(b);
        }
        if complete {
            let mut missing = BTreeSet::new();
            for hunk in band["hunks"].as_array().unwrap() {
                for blk in hunk.as_array().unwrap() {
                    for j in blk.as_array().unwrap() {
                        let h = &hashes[j.as_u64().unwrap() as usize];
                        if !dir.join("d").join(&h[..3]).join(h).exists() {
                            missing.insert(j.as_u64().unwrap());
                        }
                    }
                }
            }
            if !missing.is_empty() {
                problems.push(json!({"band": b, "missing_blocks": missing}));
            }
        }
    }
    let blocks_left: Vec<usize> = hashes.iter().enumerate().filter(|(_, h)| dir.join("d").join(&h[..3]).join(h).exists()).map(|(j, _)| j).collect();
    json!({"bands_left": bands_left, "blocks_left": blocks_left, "damaged": problems, "broken_complete_bands": broken,
           "lock_left": dir.join("GC_LOCK").exists()})
}

pub fn run(sc: &Value) -> Value {
    let tmp = tempfile::tempdir().unwrap();
    let dir = tmp.path().join("a");
    let hashes = write_archive_c(&dir, &sc["spec"], &sc["concrete"]);
    let delete: Vec<BandId> = sc["delete"].as_array().unwrap().iter().map(|b| BandId::from(b.as_u64().unwrap() as u32)).collect();
    let opts = DeleteOptions { dry_run: sc["dry_run"].as_bool().unwrap_or(false), break_lock: sc["break_lock"].as_bool().unwrap_or(false) };
    let log = Arc::new(Mutex::new(Vec::new()));
    let (fire, what) = fire_of(sc);
    let dir2 = dir.clone();
    let log2 = log.clone();
    let r = catch_unwind(AssertUnwindSafe(|| {
        let rt = tokio::runtime::Builder::new_current_thread().enable_all().build().unwrap();
        rt.block_on(async {
            let archive = Archive::open_path(&dir2).await.unwrap();
            install_hook(fire, &what, log2);
            let res = archive.delete_bands(&delete, &opts, TestMonitor::arc()).await;
            // let a lock dropped on an error path be removed
            tokio::task::yield_now().await;
            tokio::time::sleep(std::time::Duration::from_millis(20)).await;
            verif_hook::set_callback(None);
            match res {
                Ok(_) => "Ok".to_string(),
                Err(e) => format!("Err:{e:?}"),
            }
        })
    }));
    verif_hook::set_callback(None);
    let ops: Vec<_> = log.lock().unwrap().iter().map(|(v, p)| json!([v, p])).collect();
    match r {
        Ok(res) => json!({"result": res, "scan": scan(&dir, &sc["spec"], &hashes), "ops": ops}),
        Err(p) => {
            let msg = p.downcast_ref::<String>().cloned().or_else(|| p.downcast_ref::<&str>().map(|s| s.to_string()));
            json!({"panic": true, "message": msg, "scan": scan(&dir, &sc["spec"], &hashes), "ops": ops})
        }
    }
}
