//! backup() of a real source tree with an injected storage fault / crash, optionally after a prior fault-free backup;
//! afterwards every version is restored and compared with the source it was made from.
use crate::gcops::{fire_of, install_hook_root};
use crate::roundtrip::{diff_snapshots, make_tree, options, snapshot};
use conserve::monitor::test::TestMonitor;
use conserve::transport::verif_hook;
use conserve::*;
use serde_json::{json, Value};
use std::panic::{catch_unwind, AssertUnwindSafe};
use std::sync::{Arc, Mutex};

pub fn run(sc: &Value) -> Value {
    let tmp = tempfile::tempdir().unwrap();
    let src = tmp.path().join("src");
    let arch = tmp.path().join("archive");
    std::fs::create_dir_all(&src).unwrap();
    let has_prior_files = sc["prior_files"].is_array();
    make_tree(&src, if has_prior_files { &sc["prior_files"] } else { &sc["files"] });
    let mut before = snapshot(&src);
    let mut opts = options(sc);
    // a source file that changes between the directory listing and its read: when the entry `when_reported` is reported
    // through the change callback, `path` is truncated to `to` bytes, or replaced by a directory (its read then fails)
    if sc["source_event"].is_object() {
        let ev = sc["source_event"].clone();
        let root = src.clone();
        opts.change_callback = Some(Box::new(move |change: &EntryChange| {
            if change.apath.to_string() == ev["when_reported"].as_str().unwrap_or("") {
                let target = root.join(ev["path"].as_str().unwrap().trim_start_matches('/'));
                match ev["what"].as_str().unwrap_or("") {
                    "truncate" => {
                        let f = std::fs::OpenOptions::new().write(true).open(&target).unwrap();
                        f.set_len(ev["to"].as_u64().unwrap_or(0)).unwrap();
                    }
                    _ => {
                        std::fs::remove_file(&target).unwrap();
                        std::fs::create_dir(&target).unwrap();
                    }
                }
            }
            Ok(())
        }));
    }
    let log = Arc::new(Mutex::new(Vec::new()));
    let (fire, what) = fire_of(sc);
    let follow_up = sc["follow_up"].as_bool().unwrap_or(false);
    let tmp_path = tmp.path().to_owned();
    let log2 = log.clone();
    let r = catch_unwind(AssertUnwindSafe(|| {
        let rt = tokio::runtime::Builder::new_current_thread().enable_all().build().unwrap();
        rt.block_on(async {
            let archive = Archive::create_path(&arch).await.unwrap();
            if sc["prior"].as_bool().unwrap_or(false) || has_prior_files {
                backup(&archive, &src, &opts, TestMonitor::arc()).await.unwrap();
            }
            if sc["headless_above"].as_bool().unwrap_or(false) {
                // an earlier run was killed after creating its band directory and before writing the head
                let next = archive.list_band_ids().await.unwrap().last().map(|b| b.next_sibling()).unwrap_or(BandId::zero());
                std::fs::create_dir(arch.join(next.to_string())).unwrap();
            }
            if has_prior_files {
                std::fs::remove_dir_all(&src).unwrap();
                std::fs::create_dir_all(&src).unwrap();
                make_tree(&src, &sc["files"]);
                before = snapshot(&src);
            }
            let bm = TestMonitor::arc();
            install_hook_root(fire, &what, log2.clone(), Some(arch.clone()));
            let stats = backup(&archive, &src, &opts, bm.clone()).await;
            let stopped = verif_hook::is_stopped();
            verif_hook::set_callback(None);
            // the read-only inspection below is logged too (a reader that removes or rewrites something must show up)
            log2.lock().unwrap().push(("inspect".to_string(), String::new()));
            install_hook_root(None, "", log2.clone(), Some(arch.clone()));
            let backup_errors = bm.take_errors().iter().map(|e| format!("{e}")).collect::<Vec<_>>();
            let (backup_ok, stat_errors) = match &stats {
                Ok(s) => (true, s.errors),
                Err(_) => (false, 0),
            };
            let mut out = json!({"backup_ok": backup_ok, "backup_err": stats.as_ref().err().map(|e| format!("{e}")),
                   "stat_errors": stat_errors, "backup_errors": backup_errors, "stopped": stopped});
            // restore every band that has a head and compare what comes back with the source
            let archive = Archive::open_path(&arch).await.unwrap();
            let mut versions = Vec::new();
            for band_id in archive.list_band_ids().await.unwrap() {
                let dest = tmp_path.join(format!("dest-{band_id}"));
                let rm = TestMonitor::arc();
                let rr = restore(&archive, &dest, RestoreOptions { band_selection: BandSelectionPolicy::Specified(band_id), ..RestoreOptions::default() }, rm.clone()).await;
                let errs = rm.take_errors().iter().map(|e| format!("{e}")).collect::<Vec<_>>();
                let after = if dest.exists() { snapshot(&dest) } else { vec![] };
                let diffs = diff_snapshots(&before, &after, false);
                let wrong: Vec<&Value> = diffs.iter().filter(|d| d["field"] == "digest" || d["field"] == "len").collect();
                let tail_len = std::fs::metadata(arch.join(format!("{band_id}")).join("BANDTAIL")).map(|m| m.len() as i64).unwrap_or(-1);
                let closed = tail_len > 0;
                // what the version list is built from
                let info = match Band::open(&archive, band_id).await {
                    Ok(band) => match band.get_info().await {
                        Ok(i) => json!({"ok": true, "is_closed": i.is_closed}),
                        Err(e) => json!({"ok": false, "err": format!("{e}")}),
                    },
                    Err(e) => json!({"ok": false, "open_err": format!("{e}")}),
                };
                // the listing itself (an entry listed twice restores to the same tree and would otherwise go unnoticed)
                let mut listing = Vec::new();
                if let Ok(mut st) = archive.iter_entries(BandSelectionPolicy::Specified(band_id), Apath::root(), Exclude::nothing(), TestMonitor::arc()).await {
                    while let Some(e) = st.next().await {
                        listing.push(e.apath.to_string());
                        if listing.len() > 10000 {
                            break;
                        }
                    }
                }
                versions.push(json!({"band": format!("{band_id}"), "closed": closed, "tail_len": tail_len, "info": info, "restore_ok": rr.is_ok(), "restore_errors": errs, "listing": listing,
                                     "wrong_content": wrong, "differences": diffs.len()}));
            }
            out["versions"] = json!(versions);
            out["latest_closed"] = json!(match archive.resolve_band_id(BandSelectionPolicy::LatestClosed).await {
                Ok(b) => b.to_string(),
                Err(e) => format!("Err:{e:?}"),
            });
            out["format_problems"] = json!(crate::formatscan::scan(&arch));
            if let Some(last) = archive.list_band_ids().await.unwrap().last() {
                out["recorded_mtimes"] = json!(crate::formatscan::recorded_mtimes(&arch, &last.to_string()));
            }
            if sc["validate_after"].as_bool().unwrap_or(false) {
                let mut verrs = Vec::new();
                let mut vok = true;
                for quick in [false, true] {
                    let vm = TestMonitor::arc();
                    let vr = archive.validate(&ValidateOptions { skip_block_hashes: quick }, vm.clone()).await;
                    vok &= vr.is_ok();
                    verrs.extend(vm.take_errors().iter().map(|e| format!("{e}")));
                }
                out["validate_ok"] = json!(vok);
                out["validate_errors"] = json!(verrs);
            }
            if follow_up {
                let fm = TestMonitor::arc();
                log2.lock().unwrap().push(("follow_up".to_string(), String::new()));
                install_hook_root(None, "", log2.clone(), Some(arch.clone()));
                let fs = backup(&archive, &src, &opts, fm.clone()).await;
                verif_hook::set_callback(None);
                out["follow_up_ok"] = json!(fs.is_ok());
                out["follow_up_errors"] = json!(fs.as_ref().map(|s| s.errors).unwrap_or(0));
                out["follow_up_written_blocks"] = json!(fs.as_ref().map(|s| s.written_blocks).unwrap_or(0));
                out["follow_up_unmodified"] = json!(fs.as_ref().map(|s| s.unmodified_files).unwrap_or(0));
                let dest = tmp_path.join("dest-followup");
                let rm = TestMonitor::arc();
                let rr = restore(&archive, &dest, RestoreOptions::default(), rm.clone()).await;
                let after = if dest.exists() { snapshot(&dest) } else { vec![] };
                out["follow_up_restore_ok"] = json!(rr.is_ok() && rm.take_errors().is_empty());
                out["follow_up_mismatches"] = json!(diff_snapshots(&before, &after, false));
            }
            out
        })
    }));
    verif_hook::set_callback(None);
    let ops: Vec<_> = log.lock().unwrap().iter().map(|(v, p)| json!([v, p])).collect();
    match r {
        Ok(mut v) => {
            v["ops"] = json!(ops);
            v
        }
        Err(p) => {
            let msg = p.downcast_ref::<String>().cloned().or_else(|| p.downcast_ref::<&str>().map(|s| s.to_string()));
            json!({"panic": true, "message": msg, "ops": ops})
        }
    }
}
