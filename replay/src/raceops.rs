//! One backup and one gc on the same archive, released storage operation by storage operation according to a schedule.
use crate::roundtrip::{make_tree, snapshot, diff_snapshots};
use conserve::monitor::test::TestMonitor;
use conserve::transport::verif_hook::{self, Action};
use conserve::*;
use serde_json::{json, Value};
use std::sync::{Arc, Condvar, Mutex};

struct Sched {
    schedule: Vec<String>,
    pos: usize,
    finished: Vec<String>,
}

pub fn run(sc: &Value) -> Value {
    let tmp = tempfile::tempdir().unwrap();
    let src1 = tmp.path().join("src1");
    let src2 = tmp.path().join("src2");
    let arch = tmp.path().join("archive");
    std::fs::create_dir_all(&src1).unwrap();
    std::fs::create_dir_all(&src2).unwrap();
    make_tree(&src1, &sc["first_tree"]);
    make_tree(&src2, &sc["second_tree"]);
    // two racing backups: the second actor backs up "third_tree" instead of collecting garbage
    let two_backups = sc["third_tree"].is_array();
    let src3 = tmp.path().join("src3");
    std::fs::create_dir_all(&src3).unwrap();
    if two_backups {
        make_tree(&src3, &sc["third_tree"]);
    }
    let opts = || BackupOptions { small_file_cap: 0, ..BackupOptions::default() };
    let rt = tokio::runtime::Builder::new_current_thread().enable_all().build().unwrap();
    // history: one complete version, plus a garbage block holding the content of the file named by "garbage_file"
    rt.block_on(async {
        let archive = Archive::create_path(&arch).await.unwrap();
        backup(&archive, &src1, &opts(), TestMonitor::arc()).await.unwrap();
        if sc["middle_tree"].is_array() {
            // a second complete version (the one a racing delete removes)
            let srcm = tmp.path().join("srcm");
            std::fs::create_dir_all(&srcm).unwrap();
            make_tree(&srcm, &sc["middle_tree"]);
            backup(&archive, &srcm, &opts(), TestMonitor::arc()).await.unwrap();
        }
    });
    if let Some(n) = sc["first_band"].as_u64() {
        // the existing version has a four-digit id that the next one rolls over (b9999 -> b10000)
        std::fs::rename(arch.join("b0000"), arch.join(format!("b{:04}", n))).unwrap();
    }
    if sc["remove_first_version"].as_bool().unwrap_or(false) {
        // an archive that holds no version (any more), only blocks left behind
        std::fs::remove_dir_all(arch.join("b0000")).unwrap();
    }
    let delete_ids: Vec<BandId> = sc["delete"].as_array().map(|a| a.iter().map(|v| BandId::from(v.as_u64().unwrap() as u32)).collect()).unwrap_or_default();
    if let Some(g) = sc["garbage_file"].as_str() {
        let data = std::fs::read(src2.join(g.trim_start_matches('/'))).unwrap();
        let h = hex::encode(blake2_rfc::blake2b::blake2b(64, &[], &data).as_bytes());
        let sub = arch.join("d").join(&h[..3]);
        std::fs::create_dir_all(&sub).unwrap();
        std::fs::write(sub.join(&h), snap::raw::Encoder::new().compress_vec(&data).unwrap()).unwrap();
    }
    let schedule: Vec<String> = sc["schedule"].as_array().unwrap().iter().map(|v| v.as_str().unwrap().to_string()).collect();
    let state = Arc::new((Mutex::new(Sched { schedule, pos: 0, finished: vec![] }), Condvar::new()));
    let st2 = state.clone();
    let log = Arc::new(Mutex::new(Vec::<Value>::new()));
    let log2 = log.clone();
    // writes aimed at a file that already exists non-empty: (path, modification time before the write)
    let attempts = Arc::new(Mutex::new(Vec::<(String, std::time::SystemTime)>::new()));
    let attempts2 = attempts.clone();
    let arch_for_hook = arch.clone();
    verif_hook::set_callback(Some(Arc::new(move |verb: &str, path: &str, _c: Option<&[u8]>| {
        let me = std::thread::current().name().unwrap_or("?").to_string();
        if path == "CONSERVE" {
            return Action::Proceed; // opening the archive is not part of either operation
        }
        let (m, cv) = &*st2;
        let mut g = m.lock().unwrap();
        loop {
            let turn = g.schedule.get(g.pos).cloned();
            match turn {
                None => break,                                    // schedule exhausted: run freely
                Some(t) if t == me => break,
                Some(t) if g.finished.contains(&t) => { g.pos += 1; continue; }   // the scheduled actor already ended
                _ => { g = cv.wait_timeout(g, std::time::Duration::from_secs(20)).unwrap().0; }
            }
        }
        g.pos += 1;
        log2.lock().unwrap().push(json!([me, verb, path]));
        if verb == "write" {
            if let Ok(md) = std::fs::metadata(arch_for_hook.join(path)) {
                if md.is_file() && md.len() > 0 {
                    attempts2.lock().unwrap().push((path.to_string(), md.modified().unwrap()));
                }
            }
        }
        cv.notify_all();
        Action::Proceed
    })));
    let spawn = |name: &str, f: Box<dyn FnOnce() -> String + Send>| {
        let st = state.clone();
        let nm = name.to_string();
        std::thread::Builder::new().name(name.to_string()).spawn(move || {
            let r = f();
            let (m, cv) = &*st;
            m.lock().unwrap().finished.push(nm);
            cv.notify_all();
            r
        }).unwrap()
    };
    let (a1, s2) = (arch.clone(), src2.clone());
    let tb = spawn("backup", Box::new(move || {
        let rt = tokio::runtime::Builder::new_current_thread().enable_all().build().unwrap();
        rt.block_on(async {
            let archive = Archive::open_path(&a1).await.unwrap();
            match backup(&archive, &s2, &BackupOptions { small_file_cap: 0, ..BackupOptions::default() }, TestMonitor::arc()).await {
                Ok(st) => if two_backups { format!("Ok errors={}", st.errors) } else { "Ok".to_string() },
                Err(e) => format!("Err:{e:?}"),
            }
        })
    }));
    let (a2, s3) = (arch.clone(), src3.clone());
    let break_lock = sc["break_lock"].as_bool().unwrap_or(false);
    let tg = spawn(if two_backups { "backup2" } else { "gc" }, Box::new(move || {
        let rt = tokio::runtime::Builder::new_current_thread().enable_all().build().unwrap();
        rt.block_on(async {
            let archive = Archive::open_path(&a2).await.unwrap();
            if two_backups {
                return match backup(&archive, &s3, &BackupOptions { small_file_cap: 0, ..BackupOptions::default() }, TestMonitor::arc()).await {
                    Ok(st) => format!("Ok errors={}", st.errors),
                    Err(e) => format!("Err:{e:?}"),
                };
            }
            let r = archive.delete_bands(&delete_ids, &DeleteOptions { dry_run: false, break_lock }, TestMonitor::arc()).await;
            tokio::time::sleep(std::time::Duration::from_millis(20)).await;
            match r {
                Ok(_) => "Ok".to_string(),
                Err(e) => format!("Err:{e:?}"),
            }
        })
    }));
    let rb = tb.join().unwrap_or_else(|_| "panic".to_string());
    let rg = tg.join().unwrap_or_else(|_| "panic".to_string());
    verif_hook::set_callback(None);
    // every complete version must restore without errors
    let before = snapshot(&src2);
    let before3 = snapshot(&src3);
    let versions = rt.block_on(async {
        let archive = Archive::open_path(&arch).await.unwrap();
        let mut out = Vec::new();
        for band_id in archive.list_band_ids().await.unwrap() {
            if !archive.band_is_closed(band_id).await.unwrap_or(false) {
                continue;
            }
            let dest = tmp.path().join(format!("dest-{band_id}"));
            let rm = TestMonitor::arc();
            let rr = restore(&archive, &dest, RestoreOptions { band_selection: BandSelectionPolicy::Specified(band_id), ..RestoreOptions::default() }, rm.clone()).await;
            let errs = rm.take_errors().iter().map(|e| format!("{e}")).collect::<Vec<_>>();
            let after = if dest.exists() { snapshot(&dest) } else { vec![] };
            out.push(json!({"band": format!("{band_id}"), "restore_ok": rr.is_ok(), "restore_errors": errs,
                            "differs_from_second_tree": diff_snapshots(&before, &after, false).len(),
                            "differs_from_third_tree": diff_snapshots(&before3, &after, false).len()}));
        }
        out
    });
    // which of those writes went through: the file is gone or carries a new modification time
    let rewritten: Vec<String> = attempts.lock().unwrap().iter()
        .filter(|(p, before)| std::fs::metadata(arch.join(p)).and_then(|m| m.modified()).map(|now| now != *before).unwrap_or(true))
        .map(|(p, _)| p.clone()).collect();
    json!({"backup": rb, "gc": rg, "versions": versions, "rewritten": rewritten, "ops": log.lock().unwrap().clone()})
}
