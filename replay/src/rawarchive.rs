//! Write an archive directly in the documented 0.6 format (no conserve writer code involved),
//! then read it back through conserve's public API.
use conserve::monitor::test::TestMonitor;
use conserve::*;
use serde_json::{json, Value};
use std::panic::{catch_unwind, AssertUnwindSafe};
use std::path::Path;

pub fn band_name(i: u64) -> String {
    format!("b{:04}", i)
}

fn compress(data: &[u8]) -> Vec<u8> {
    snap::raw::Encoder::new().compress_vec(data).unwrap()
}

/// bands: [{band, state: absent|nohead|open|closed, hunks: [{hunk, entries: [{tag, path, kind?, target?}]}]}]
pub fn write_archive(dir: &Path, bands: &Value) {
    std::fs::create_dir_all(dir.join("d")).unwrap();
    std::fs::write(dir.join("CONSERVE"), "{\"conserve_archive_version\":\"0.6\"}\n").unwrap();
    for b in bands.as_array().unwrap() {
        let state = b["state"].as_str().unwrap();
        if state == "absent" {
            continue;
        }
        let bdir = dir.join(band_name(b["band"].as_u64().unwrap()));
        std::fs::create_dir_all(&bdir).unwrap();
        std::fs::create_dir_all(bdir.join("i")).unwrap();
        if state == "emptyhead" {
            std::fs::write(bdir.join("BANDHEAD"), b"").unwrap();
            continue;
        }
        if state != "nohead" && state != "noheadtail" {
            std::fs::write(
                bdir.join("BANDHEAD"),
                "{\"start_time\":0,\"band_format_version\":\"0.6.3\",\"format_flags\":[]}\n",
            )
            .unwrap();
            std::fs::create_dir_all(bdir.join("i")).unwrap();
        }
        let hunks = b["hunks"].as_array().cloned().unwrap_or_default();
        for h in &hunks {
            let n = h["hunk"].as_u64().unwrap();
            let sub = bdir.join("i").join(format!("{:05}", n / 10000));
            std::fs::create_dir_all(&sub).unwrap();
            let mut entries = Vec::new();
            for e in h["entries"].as_array().unwrap() {
                let kind = e["kind"].as_str().unwrap_or("Symlink");
                let mut j = json!({"apath": e["path"], "kind": kind, "mtime": e["tag"], "unix_mode": null});
                if kind == "Symlink" {
                    j["target"] = json!(e["target"].as_str().unwrap_or("t"));
                }
                entries.push(j);
            }
            let data = serde_json::to_vec(&entries).unwrap();
            std::fs::write(sub.join(format!("{:09}", n)), compress(&data)).unwrap();
        }
        if state == "emptytail" {
            // a backup killed inside the write of the tail
            std::fs::write(bdir.join("BANDTAIL"), b"").unwrap();
        }
        if state == "closed" || state == "noheadtail" {
            std::fs::write(
                bdir.join("BANDTAIL"),
                format!("{{\"end_time\":0,\"index_hunk_count\":{}}}\n", hunks.len()),
            )
            .unwrap();
        }
    }
}

pub fn run_stitch(sc: &Value) -> Value {
    let scen = &sc["scenario"];
    let tmp = tempfile::tempdir().unwrap();
    write_archive(tmp.path(), &scen["bands"]);
    let n = scen["list_band"].as_u64().unwrap() as u32;
    let subtree = scen["subtree"].as_str().unwrap_or("/").to_string();
    let path = tmp.path().to_owned();
    let r = catch_unwind(AssertUnwindSafe(|| {
        let rt = tokio::runtime::Builder::new_current_thread().enable_all().build().unwrap();
        rt.block_on(async {
            let archive = Archive::open_path(&path).await.unwrap();
            let monitor = TestMonitor::arc();
            let mut out = Vec::new();
            match archive
                .iter_entries(
                    BandSelectionPolicy::Specified(BandId::from(n)),
                    Apath::from(subtree.as_str()),
                    Exclude::nothing(),
                    monitor.clone(),
                )
                .await
            {
                Ok(mut st) => {
                    let mut count = 0;
                    while let Some(e) = st.next().await {
                        out.push(e.mtime);
                        count += 1;
                        if count > 1000 {
                            return json!({"listing": out, "nonterminating": true});
                        }
                    }
                    json!({"listing": out, "errors": monitor.take_errors().len()})
                }
                Err(err) => json!({"listing": [], "open_error": format!("{err}")}),
            }
        })
    }));
    match r {
        Ok(v) => v,
        Err(_) => json!({"panic": true}),
    }
}


/// scenario: {bands: [{band, state: open|closed, hunks: []}]} -> ids chosen by LatestClosed and Latest
pub fn run_select(sc: &Value) -> Value {
    let tmp = tempfile::tempdir().unwrap();
    write_archive(tmp.path(), &sc["bands"]);
    std::fs::create_dir_all(tmp.path().join("unrelated-dir")).unwrap();
    let path = tmp.path().to_owned();
    let r = catch_unwind(AssertUnwindSafe(|| {
        let rt = tokio::runtime::Builder::new_current_thread().enable_all().build().unwrap();
        rt.block_on(async {
            let archive = Archive::open_path(&path).await.unwrap();
            let f = |r: Result<BandId>| match r {
                Ok(b) => json!(b.to_string()),
                Err(e) => json!(format!("Err:{e:?}")),
            };
            json!({"LatestClosed": f(archive.resolve_band_id(BandSelectionPolicy::LatestClosed).await),
                   "Latest": f(archive.resolve_band_id(BandSelectionPolicy::Latest).await)})
        })
    }));
    r.unwrap_or_else(|_| json!({"panic": true}))
}
