//! restore() of a version of an archive written directly in the documented format, into a sandbox with sentinels
//! outside the destination.
use crate::roundtrip::snapshot;
use conserve::monitor::test::TestMonitor;
use conserve::*;
use serde_json::{json, Value};
use std::panic::{catch_unwind, AssertUnwindSafe};
use std::path::Path;

fn bytes_for(class: u64, len: usize) -> Vec<u8> {
    let mut x = (class as u32).wrapping_mul(2654435761).wrapping_add(4242);
    (0..len).map(|_| { x ^= x << 13; x ^= x >> 17; x ^= x << 5; (x & 0xff) as u8 }).collect()
}

/// bands: [{band, closed, entries:[{path, kind, size, class, mode, user, group, mtime:[s,n], target}]}]
fn write_archive(dir: &Path, bands: &Value) {
    std::fs::create_dir_all(dir.join("d")).unwrap();
    std::fs::write(dir.join("CONSERVE"), "{\"conserve_archive_version\":\"0.6\"}\n").unwrap();
    for b in bands.as_array().unwrap() {
        let bdir = dir.join(format!("b{:04}", b["band"].as_u64().unwrap()));
        std::fs::create_dir_all(bdir.join("i/00000")).unwrap();
        let version = b["band_format_version"].as_str().unwrap_or("0.6.3");
        std::fs::write(bdir.join("BANDHEAD"), format!("{{\"start_time\":0,\"band_format_version\":{},\"format_flags\":[]}}\n", serde_json::to_string(version).unwrap())).unwrap();
        let mut hunks: std::collections::BTreeMap<u64, Vec<Value>> = std::collections::BTreeMap::new();
        for e in b["entries"].as_array().unwrap() {
            let kind = e["kind"].as_str().unwrap();
            let mut j = json!({"apath": e["path"], "kind": kind, "mtime": e["mtime"][0], "mtime_nanos": e["mtime"][1],
                               "unix_mode": e["mode"], "user": e["user"], "group": e["group"]});
            if kind == "Symlink" {
                j["target"] = e["target"].clone();
            }
            if e["parts"].is_array() {
                // a file stored in several blocks, each a run of zero bytes ("zero") or of the bytes of a content class
                let mut addrs = Vec::new();
                for p in e["parts"].as_array().unwrap() {
                    let l = p[1].as_u64().unwrap() as usize;
                    let data = if p[0] == "zero" { vec![0u8; l] } else { bytes_for(p[0].as_u64().unwrap_or(1), l) };
                    let h = hex::encode(blake2_rfc::blake2b::blake2b(64, &[], &data).as_bytes());
                    let sub = dir.join("d").join(&h[..3]);
                    std::fs::create_dir_all(&sub).unwrap();
                    std::fs::write(sub.join(&h), snap::raw::Encoder::new().compress_vec(&data).unwrap()).unwrap();
                    addrs.push(json!({"hash": h, "len": l}));
                }
                j["addrs"] = json!(addrs);
            } else if e["addr_raw"].is_object() {
                // a decoded address exactly as the solver chose it: into the block of class `class`/`block_len`, or a missing block
                let a = &e["addr_raw"];
                let h = if a["present"].as_bool().unwrap_or(true) {
                    let data = bytes_for(a["class"].as_u64().unwrap_or(5), a["block_len"].as_u64().unwrap_or(10) as usize);
                    hex::encode(blake2_rfc::blake2b::blake2b(64, &[], &data).as_bytes())
                } else {
                    "f".repeat(128)
                };
                let mut list = vec![json!({"hash": h, "start": a["start"].as_u64().unwrap_or(0), "len": a["len"].as_u64().unwrap_or(0)})];
                if a["second"].is_object() {
                    let data = bytes_for(a["class"].as_u64().unwrap_or(5), a["block_len"].as_u64().unwrap_or(10) as usize);
                    let h2 = hex::encode(blake2_rfc::blake2b::blake2b(64, &[], &data).as_bytes());
                    list.push(json!({"hash": h2, "start": a["second"]["start"].as_u64().unwrap_or(0), "len": a["second"]["len"].as_u64().unwrap_or(0)}));
                }
                j["addrs"] = json!(list);
            } else if kind == "File" && e["blocks"].is_array() {
                // a file stored in several blocks: content = bytes_for(class, sum), cut at the given lengths
                let lens: Vec<usize> = e["blocks"].as_array().unwrap().iter().map(|l| l.as_u64().unwrap() as usize).collect();
                let all = bytes_for(e["class"].as_u64().unwrap_or(1), lens.iter().sum());
                let mut addrs = Vec::new();
                let mut off = 0;
                for l in lens {
                    let data = &all[off..off + l];
                    off += l;
                    let h = hex::encode(blake2_rfc::blake2b::blake2b(64, &[], data).as_bytes());
                    let sub = dir.join("d").join(&h[..3]);
                    std::fs::create_dir_all(&sub).unwrap();
                    std::fs::write(sub.join(&h), snap::raw::Encoder::new().compress_vec(data).unwrap()).unwrap();
                    addrs.push(json!({"hash": h, "len": l}));
                }
                j["addrs"] = json!(addrs);
            } else if kind == "File" {
                let len = e["size"].as_u64().unwrap_or(0) as usize;
                if len > 0 {
                    let data = bytes_for(e["class"].as_u64().unwrap_or(1), len);
                    let h = hex::encode(blake2_rfc::blake2b::blake2b(64, &[], &data).as_bytes());
                    let sub = dir.join("d").join(&h[..3]);
                    std::fs::create_dir_all(&sub).unwrap();
                    std::fs::write(sub.join(&h), snap::raw::Encoder::new().compress_vec(&data).unwrap()).unwrap();
                    j["addrs"] = json!([{"hash": h, "len": len}]);
                }
            }
            hunks.entry(e["hunk"].as_u64().unwrap_or(0)).or_default().push(j);
        }
        for (n, entries) in &hunks {
            let data = serde_json::to_vec(entries).unwrap();
            std::fs::write(bdir.join(format!("i/00000/{:09}", n)), snap::raw::Encoder::new().compress_vec(&data).unwrap()).unwrap();
        }
        if b["closed"].as_bool().unwrap_or(true) {
            // "tail_count": null = no count recorded (old archives); a number = exactly that (possibly wrong) count
            let tail = if b.get("tail_count").is_some() && b["tail_count"].is_null() {
                "{\"end_time\":0}\n".to_string()
            } else {
                format!("{{\"end_time\":0,\"index_hunk_count\":{}}}\n", b["tail_count"].as_u64().unwrap_or(hunks.len() as u64))
            };
            std::fs::write(bdir.join("BANDTAIL"), tail).unwrap();
        }
    }
}

pub fn run(sc: &Value) -> Value {
    let tmp = tempfile::tempdir().unwrap();
    let arch = tmp.path().join("archive");
    let sandbox = tmp.path().join("sandbox");
    write_archive(&arch, &sc["bands"]);
    // sandbox/out/sentinel and sandbox/dest (state per scenario); the absolute-target sentinel lives in abs/
    std::fs::create_dir_all(sandbox.join("out")).unwrap();
    std::fs::write(sandbox.join("out/sentinel"), b"sentinel").unwrap();
    std::fs::create_dir_all(sandbox.join("out/sub")).unwrap();
    std::fs::write(sandbox.join("out/sub/sentinel2"), b"sentinel2").unwrap();
    let _ = std::os::unix::fs::chown(sandbox.join("out/sub/sentinel2"), Some(54321), Some(54322));
    let _ = std::os::unix::fs::chown(sandbox.join("out/sub"), Some(54321), Some(54322));
    // give the sentinels a foreign owner so that an ownership change through a followed link is visible (needs root)
    let _ = std::os::unix::fs::chown(sandbox.join("out/sentinel"), Some(54321), Some(54322));
    let _ = std::os::unix::fs::chown(sandbox.join("out"), Some(54321), Some(54322));
    let dest = sandbox.join("dest");
    match sc["dest"].as_str().unwrap_or("absent") {
        "empty" => std::fs::create_dir_all(&dest).unwrap(),
        "populated" => {
            std::fs::create_dir_all(&dest).unwrap();
            std::fs::write(dest.join("existing"), b"old").unwrap();
            std::fs::create_dir_all(dest.join("p")).unwrap();
            std::fs::write(dest.join("p/f"), b"precious").unwrap();
        }
        "only-dotfiles" => {
            std::fs::create_dir_all(dest.join(".config")).unwrap();
            std::fs::write(dest.join(".profile"), b"old").unwrap();
            std::fs::write(dest.join(".config/app"), b"old").unwrap();
        }
        "only-lost+found" => {
            std::fs::create_dir_all(dest.join("lost+found")).unwrap();
            std::fs::write(dest.join("lost+found/precious"), b"precious").unwrap();
        }
        "only-symlinks" => {
            std::fs::create_dir_all(&dest).unwrap();
            std::os::unix::fs::symlink("../out/sentinel", dest.join("existing")).unwrap();
            std::os::unix::fs::symlink("nowhere", dest.join("dangling")).unwrap();
            std::os::unix::fs::symlink("../out", dest.join("p")).unwrap();
            std::os::unix::fs::symlink("../out/absent", dest.join("n")).unwrap();
        }
        _ => {}
    }
    // damage: [{file: archive-relative path | "block:<entry path>", how: delete|empty|garbage}]
    if let Some(list) = sc["damage"].as_array() {
        for d in list {
            let f = d["file"].as_str().unwrap();
            let target = if let Some(spec) = f.strip_prefix("block:") {
                // the block of the named file entry (optionally "#k" for the k-th block of a multi-block file): recompute its hash
                let (epath, nth) = match spec.split_once('#') {
                    Some((p, k)) => (p, Some(k.parse::<usize>().unwrap())),
                    None => (spec, None),
                };
                // "<path>@<band>" restricts the lookup to that band (the same path may hold different content in another version)
                let (epath, only_band) = match epath.split_once('@') {
                    Some((p, b)) => (p, b.parse::<u64>().ok()),
                    None => (epath, None),
                };
                let mut found = None;
                for b in sc["bands"].as_array().unwrap() {
                    if only_band.is_some() && b["band"].as_u64() != only_band {
                        continue;
                    }
                    if only_band.is_none() && found.is_some() {
                        break;
                    }
                    for e in b["entries"].as_array().unwrap() {
                        if e["path"] == epath && e["blocks"].is_array() {
                            let lens: Vec<usize> = e["blocks"].as_array().unwrap().iter().map(|l| l.as_u64().unwrap() as usize).collect();
                            let all = bytes_for(e["class"].as_u64().unwrap_or(1), lens.iter().sum());
                            let k = nth.unwrap_or(0);
                            let off: usize = lens[..k].iter().sum();
                            let h = hex::encode(blake2_rfc::blake2b::blake2b(64, &[], &all[off..off + lens[k]]).as_bytes());
                            found = Some(arch.join("d").join(&h[..3]).join(&h));
                        } else if e["path"] == epath {
                            let data = bytes_for(e["class"].as_u64().unwrap_or(1), e["size"].as_u64().unwrap_or(0) as usize);
                            let h = hex::encode(blake2_rfc::blake2b::blake2b(64, &[], &data).as_bytes());
                            found = Some(arch.join("d").join(&h[..3]).join(&h));
                        }
                    }
                }
                found.unwrap()
            } else {
                arch.join(f)
            };
            match d["how"].as_str().unwrap() {
                "delete" => std::fs::remove_file(&target).unwrap(),
                "empty" => std::fs::write(&target, b"").unwrap(),
                "altered" => {
                    let old = snap::raw::Decoder::new().decompress_vec(&std::fs::read(&target).unwrap()).unwrap_or_else(|_| vec![0u8; 8]);
                    let flipped: Vec<u8> = old.iter().map(|b| b ^ 0x01).collect();
                    std::fs::write(&target, snap::raw::Encoder::new().compress_vec(&flipped).unwrap()).unwrap()
                }
                _ => std::fs::write(&target, b"\xff\xfe garbage \x00\x01").unwrap(),
            }
        }
    }
    let before_all = snapshot(&sandbox);
    let outside = |snap: &[Value]| -> Vec<Value> { snap.iter().filter(|v| !v["path"].as_str().unwrap().starts_with("/dest")).cloned().collect() };
    let band = sc["restore_band"].as_u64();
    let overwrite = sc["overwrite"].as_bool().unwrap_or(false);
    let subtree = sc["subtree"].as_str().map(|s| s.to_string());
    let validate_quick = sc["validate_quick"].as_bool();
    let r = catch_unwind(AssertUnwindSafe(|| {
        let rt = tokio::runtime::Builder::new_current_thread().enable_all().build().unwrap();
        rt.block_on(async {
            let archive = Archive::open_path(&arch).await.unwrap();
            let rm = TestMonitor::arc();
            let opts = RestoreOptions {
                band_selection: band.map(|b| BandSelectionPolicy::Specified(BandId::from(b as u32))).unwrap_or(BandSelectionPolicy::LatestClosed),
                overwrite,
                only_subtree: subtree.as_deref().map(Apath::from),
                ..RestoreOptions::default()
            };
            let rr = restore(&archive, &dest, opts, rm.clone()).await;
            let errs = rm.take_errors().iter().map(|e| format!("{e}")).collect::<Vec<_>>();
            let mut out = json!({"result": match &rr { Ok(_) => "Ok".to_string(), Err(e) => format!("Err:{e:?}") }, "errors": errs});
            if let Some(files) = sc["backup_after"].as_array() {
                // a new backup of a source whose files carry the bytes the archive was built from, then restore the new version
                let src = tmp.path().join("src");
                std::fs::create_dir_all(&src).unwrap();
                for f in files {
                    let p = src.join(f["path"].as_str().unwrap().trim_start_matches('/'));
                    if f["kind"] == "Dir" {
                        std::fs::create_dir_all(&p).unwrap();
                    } else {
                        std::fs::write(&p, bytes_for(f["class"].as_u64().unwrap_or(1), f["size"].as_u64().unwrap_or(0) as usize)).unwrap();
                    }
                }
                for f in files.iter().rev() {
                    let p = src.join(f["path"].as_str().unwrap().trim_start_matches('/'));
                    if let Some(mode) = f["mode"].as_u64() {
                        std::fs::set_permissions(&p, std::os::unix::fs::PermissionsExt::from_mode(mode as u32)).unwrap();
                    }
                    let ft = filetime::FileTime::from_unix_time(f["mtime"][0].as_i64().unwrap(), f["mtime"][1].as_u64().unwrap() as u32);
                    filetime::set_file_times(&p, ft, ft).unwrap();
                }
                let bm = TestMonitor::arc();
                let br = backup(&archive, &src, &BackupOptions::default(), bm.clone()).await;
                let berrs = bm.take_errors().iter().map(|e| format!("{e}")).collect::<Vec<_>>();
                let dest2 = tmp.path().join("dest2");
                let rm2 = TestMonitor::arc();
                let archive2 = Archive::open_path(&arch).await.unwrap();
                let rr2 = restore(&archive2, &dest2, RestoreOptions::default(), rm2.clone()).await;
                let rerrs = rm2.take_errors().iter().map(|e| format!("{e}")).collect::<Vec<_>>();
                let mut mismatches = Vec::new();
                for f in files {
                    if f["kind"] == "Dir" {
                        continue;
                    }
                    let rel = f["path"].as_str().unwrap().trim_start_matches('/');
                    let want = std::fs::read(src.join(rel)).unwrap();
                    match std::fs::read(dest2.join(rel)) {
                        Ok(got) if got == want => {}
                        Ok(_) => mismatches.push(format!("{rel}: different bytes")),
                        Err(e) => mismatches.push(format!("{rel}: {e}")),
                    }
                }
                out["after_backup"] = json!({"ok": br.is_ok(), "stat_errors": br.as_ref().map(|s| s.errors).unwrap_or(0), "errors": berrs,
                    "restore_ok": rr2.is_ok(), "restore_errors": rerrs, "mismatches": mismatches});
            }
            if let Some(quick) = validate_quick {
                let vm = TestMonitor::arc();
                let vr = archive.validate(&ValidateOptions { skip_block_hashes: quick }, vm.clone()).await;
                out["validate_ok"] = json!(vr.is_ok());
                out["validate_errors"] = json!(vm.take_errors().iter().map(|e| format!("{e}")).collect::<Vec<_>>());
            }
            out
        })
    }));
    let after_all = snapshot(&sandbox);
    let (bo, ao) = (outside(&before_all), outside(&after_all));
    let mut out = match r {
        Ok(v) => v,
        Err(_) => json!({"panic": true}),
    };
    // files built from parts: compare what was restored with what the archive was given
    let mut content_mismatches = Vec::new();
    if band.is_some() || true {
        for b in sc["bands"].as_array().unwrap() {
            for e in b["entries"].as_array().unwrap() {
                if let Some(parts) = e["parts"].as_array() {
                    let mut want = Vec::new();
                    for p in parts {
                        let l = p[1].as_u64().unwrap() as usize;
                        want.extend(if p[0] == "zero" { vec![0u8; l] } else { bytes_for(p[0].as_u64().unwrap_or(1), l) });
                    }
                    let rel = e["path"].as_str().unwrap().trim_start_matches('/');
                    if std::fs::read(dest.join(rel)).ok().as_deref() != Some(&want[..]) {
                        content_mismatches.push(e["path"].clone());
                    }
                }
            }
        }
    }
    out["content_mismatches"] = json!(content_mismatches);
    out["outside_changed"] = json!(bo != ao);
    out["outside_after"] = json!(ao);
    out["inside_after"] = json!(after_all.iter().filter(|v| v["path"].as_str().unwrap().starts_with("/dest")).cloned().collect::<Vec<_>>());
    out["whole_changed"] = json!(before_all != after_all);
    out
}
