//! Transport::local(..).write on a real directory: pre-state of the target, write mode -> result and final content.
use conserve::transport::{Transport, WriteMode};
use serde_json::{json, Value};

pub fn run(sc: &Value) -> Value {
    let tmp = tempfile::tempdir().unwrap();
    let dir = tmp.path().join("arch");
    std::fs::create_dir_all(&dir).unwrap();
    std::fs::write(dir.join("other"), b"other").unwrap();
    match sc["pre"].as_str().unwrap_or("absent") {
        "empty" => std::fs::write(dir.join("f"), b"").unwrap(),
        "nonempty" => std::fs::write(dir.join("f"), b"old").unwrap(),
        "identical" => std::fs::write(dir.join("f"), b"new").unwrap(),
        "prefix" => std::fs::write(dir.join("f"), b"ne").unwrap(),
        _ => {}
    }
    let mode = if sc["create_new"].as_bool().unwrap_or(true) { WriteMode::CreateNew } else { WriteMode::Overwrite };
    let rt = tokio::runtime::Builder::new_current_thread().enable_all().build().unwrap();
    let r = rt.block_on(async {
        let t = Transport::local(&dir);
        t.write("f", b"new", mode).await
    });
    let content = std::fs::read(dir.join("f")).ok().map(|b| String::from_utf8_lossy(&b).to_string());
    json!({"ok": r.is_ok(), "kind": r.as_ref().err().map(|e| format!("{:?}", e.kind())), "content": content,
           "other_intact": std::fs::read(dir.join("other")).ok() == Some(b"other".to_vec())})
}
