//! The real source walk over a real directory tree; reports the emitted order and every adjacent pair that is not
//! strictly increasing under an independently written comparator (doc/format.md: directory part by component,
//! byte-wise, then the final name; a directory's direct children before anything in its subdirectories).
use conserve::monitor::test::TestMonitor;
use conserve::*;
use serde_json::{json, Value};
use std::cmp::Ordering;

fn doc_order(a: &str, b: &str) -> Ordering {
    fn split(p: &str) -> (Vec<&str>, &str) {
        if p == "/" {
            return (vec![], "");
        }
        let mut comps: Vec<&str> = p[1..].split('/').collect();
        let name = comps.pop().unwrap();
        (comps, name)
    }
    if a == b {
        return Ordering::Equal;
    }
    if a == "/" {
        return Ordering::Less;
    }
    if b == "/" {
        return Ordering::Greater;
    }
    let (da, na) = split(a);
    let (db, nb) = split(b);
    for (x, y) in da.iter().zip(db.iter()) {
        match x.as_bytes().cmp(y.as_bytes()) {
            Ordering::Equal => {}
            o => return o,
        }
    }
    match da.len().cmp(&db.len()) {
        Ordering::Equal => na.as_bytes().cmp(nb.as_bytes()),
        o => o, // the shallower directory's direct children come first
    }
}

/// tree: ["/", "/a/", "/a/f", ...] (a trailing '/' marks a directory; "@" suffix marks a symlink)
pub fn run(sc: &Value) -> Value {
    let tmp = tempfile::tempdir().unwrap();
    let root = tmp.path().join("src");
    std::fs::create_dir_all(&root).unwrap();
    let mut items: Vec<String> = sc["tree"].as_array().unwrap().iter().map(|v| v.as_str().unwrap().to_string()).collect();
    items.sort_by_key(|s| s.matches('/').count());
    for it in &items {
        if it == "/" {
            continue;
        }
        let rel = it.trim_start_matches('/');
        if let Some(d) = rel.strip_suffix('/') {
            std::fs::create_dir_all(root.join(d)).unwrap();
        } else if let Some((l, target)) = rel.split_once('@') {
            // "name@" is a dangling link; "name@sibling" points at the sibling directory of that name
            std::os::unix::fs::symlink(if target.is_empty() { "t" } else { target }, root.join(l)).unwrap();
        } else {
            std::fs::write(root.join(rel), b"x").unwrap();
        }
    }
    let st = SourceTree::open(&root).unwrap();
    let emitted: Vec<String> = st
        .iter_entries(Apath::root(), Exclude::nothing(), TestMonitor::arc())
        .unwrap()
        .map(|e| e.apath().to_string())
        .collect();
    let mut viol = Vec::new();
    for w in emitted.windows(2) {
        if doc_order(&w[0], &w[1]) != Ordering::Less {
            viol.push(json!([w[0], w[1]]));
        }
    }
    json!({"emitted": emitted, "order_violations": viol})
}
