//! A history of operations on ONE `Archive` value: backups of named source trees and deletions of versions.
//! After every step every complete version made so far is restored (through a freshly opened archive) and
//! compared with the tree it was made from.
//! scenario: {options, trees: {name: files}, steps: [{"backup": name} | {"delete": band number}]}
use crate::roundtrip::{diff_snapshots, make_tree, options, snapshot};
use conserve::monitor::test::TestMonitor;
use conserve::*;
use serde_json::{json, Value};
use std::collections::BTreeMap;
use std::panic::{catch_unwind, AssertUnwindSafe};

pub fn run(sc: &Value) -> Value {
    let tmp = tempfile::tempdir().unwrap();
    let arch = tmp.path().join("archive");
    let opts = options(sc);
    let tmp_path = tmp.path().to_owned();
    let r = catch_unwind(AssertUnwindSafe(|| {
        let rt = tokio::runtime::Builder::new_current_thread().enable_all().build().unwrap();
        rt.block_on(async {
            let archive = Archive::create_path(&arch).await.unwrap();
            let mut made: BTreeMap<String, Vec<Value>> = BTreeMap::new();
            let mut step_results = Vec::new();
            let mut broken = Vec::new();
            for (n, step) in sc["steps"].as_array().unwrap().iter().enumerate() {
                if let Some(name) = step["backup"].as_str() {
                    let src = tmp_path.join(format!("src-{n}"));
                    std::fs::create_dir_all(&src).unwrap();
                    make_tree(&src, &sc["trees"][name]);
                    let snap = snapshot(&src);
                    let m = TestMonitor::arc();
                    let before: Vec<BandId> = archive.list_band_ids().await.unwrap();
                    let st = backup(&archive, &src, &opts, m.clone()).await;
                    let errs = m.take_errors().iter().map(|e| format!("{e}")).collect::<Vec<_>>();
                    step_results.push(json!({"step": n, "backup": name, "ok": st.is_ok(), "errors": errs,
                                             "written_blocks": st.as_ref().map(|s| s.written_blocks).unwrap_or(0)}));
                    if st.is_ok() {
                        for b in archive.list_band_ids().await.unwrap() {
                            if !before.contains(&b) {
                                made.insert(b.to_string(), snap.clone());
                            }
                        }
                    }
                } else if let Some(b) = step["delete"].as_u64() {
                    let id = BandId::new(&[b as u32]);
                    let m = TestMonitor::arc();
                    let dr = archive.delete_bands(&[id], &DeleteOptions { dry_run: false, break_lock: false }, m.clone()).await;
                    step_results.push(json!({"step": n, "delete": b, "ok": dr.is_ok(),
                                             "errors": m.take_errors().iter().map(|e| format!("{e}")).collect::<Vec<_>>()}));
                    if dr.is_ok() {
                        made.remove(&id.to_string());
                    }
                }
                // every complete version made so far, as another process sees it
                let fresh = Archive::open_path(&arch).await.unwrap();
                for (band, snap) in &made {
                    if !arch.join(band).join("BANDTAIL").exists() {
                        continue;
                    }
                    let dest = tmp_path.join(format!("dest-{n}-{band}"));
                    let rm = TestMonitor::arc();
                    let id: BandId = band.parse().unwrap();
                    let rr = restore(&fresh, &dest, RestoreOptions { band_selection: BandSelectionPolicy::Specified(id), ..RestoreOptions::default() }, rm.clone()).await;
                    let errs = rm.take_errors().iter().map(|e| format!("{e}")).collect::<Vec<_>>();
                    let after = if dest.exists() { snapshot(&dest) } else { vec![] };
                    let diffs = diff_snapshots(snap, &after, false);
                    let wrong: Vec<&Value> = diffs.iter().filter(|d| d["field"] == "digest" || d["field"] == "len" || d["problem"].is_string()).collect();
                    if rr.is_err() || !errs.is_empty() || !wrong.is_empty() {
                        broken.push(json!({"after_step": n, "band": band, "restore_ok": rr.is_ok(), "restore_errors": errs, "wrong": wrong}));
                    }
                    let _ = std::fs::remove_dir_all(&dest);
                }
            }
            json!({"steps": step_results, "broken": broken})
        })
    }));
    match r {
        Ok(v) => v,
        Err(e) => json!({"panic": e.downcast_ref::<String>().cloned().or_else(|| e.downcast_ref::<&str>().map(|s| s.to_string())).unwrap_or_default()}),
    }
}
