//! An independent reading of an archive directory by the documented format (doc/format.md), using only snap, serde_json,
//! blake2 and hex - none of conserve's own code: hunk numbering, entry order, tail count, block naming, address ranges.
use serde_json::Value;
use std::cmp::Ordering;
use std::collections::BTreeMap;
use std::path::Path;

fn doc_order(a: &str, b: &str) -> Ordering {
    fn split(p: &str) -> (Vec<&str>, &str) {
        if p == "/" {
            return (vec![], "");
        }
        let mut comps: Vec<&str> = p[1..].split('/').collect();
        let name = comps.pop().unwrap();
        (comps, name)
    }
    if a == b {
        return Ordering::Equal;
    }
    if a == "/" {
        return Ordering::Less;
    }
    if b == "/" {
        return Ordering::Greater;
    }
    let (da, na) = split(a);
    let (db, nb) = split(b);
    for (x, y) in da.iter().zip(db.iter()) {
        match x.as_bytes().cmp(y.as_bytes()) {
            Ordering::Equal => {}
            o => return o,
        }
    }
    match da.len().cmp(&db.len()) {
        Ordering::Equal => na.as_bytes().cmp(nb.as_bytes()),
        o => o,
    }
}

pub fn scan(arch: &Path) -> Vec<String> {
    let mut problems = Vec::new();
    // blocks: d/<first 3 hex>/<128 hex> holding snappy(content) with blake2b-512(content) == name
    let mut block_len: BTreeMap<String, usize> = BTreeMap::new();
    if let Ok(subs) = std::fs::read_dir(arch.join("d")) {
        for sub in subs.flatten() {
            let sname = sub.file_name().to_string_lossy().to_string();
            if !sub.path().is_dir() {
                continue;
            }
            for f in std::fs::read_dir(sub.path()).unwrap().flatten() {
                let name = f.file_name().to_string_lossy().to_string();
                let raw = std::fs::read(f.path()).unwrap_or_default();
                if raw.is_empty() {
                    continue; // zero-length leftover of a killed write
                }
                if name.len() != 128 || !name.starts_with(&sname) {
                    problems.push(format!("block file d/{sname}/{name} is not stored under the first three digits of a 128-digit name"));
                }
                match snap::raw::Decoder::new().decompress_vec(&raw) {
                    Ok(content) => {
                        let h = hex::encode(blake2_rfc::blake2b::blake2b(64, &[], &content).as_bytes());
                        if h != name {
                            problems.push(format!("block {} does not hold the content that hashes to its name", &name[..12.min(name.len())]));
                        }
                        block_len.insert(name, content.len());
                    }
                    Err(_) => problems.push(format!("block {} is not decodable", &name[..12.min(name.len())])),
                }
            }
        }
    }
    let mut bands: Vec<String> = std::fs::read_dir(arch).map(|d| d.flatten().map(|e| e.file_name().to_string_lossy().to_string())
        .filter(|n| n.starts_with('b') && n[1..].chars().all(|c| c.is_ascii_digit())).collect()).unwrap_or_default();
    bands.sort();
    for b in bands {
        let bdir = arch.join(&b);
        if !bdir.join("BANDHEAD").exists() {
            continue;
        }
        let mut hunks: Vec<(u64, String, Vec<u8>)> = Vec::new();
        if let Ok(subs) = std::fs::read_dir(bdir.join("i")) {
            for sub in subs.flatten() {
                let sname = sub.file_name().to_string_lossy().to_string();
                for f in std::fs::read_dir(sub.path()).into_iter().flatten().flatten() {
                    let name = f.file_name().to_string_lossy().to_string();
                    match name.parse::<u64>() {
                        Ok(n) if name.len() == 9 && sname.len() == 5 && sname.parse::<u64>().ok() == Some(n / 10000) => {
                            hunks.push((n, name, std::fs::read(f.path()).unwrap_or_default()))
                        }
                        _ => problems.push(format!("{b}: index file i/{sname}/{name} is not named i/<n/10000 as 5 digits>/<n as 9 digits>")),
                    }
                }
            }
        }
        hunks.sort();
        let closed = bdir.join("BANDTAIL").exists();
        for (i, (n, _, _)) in hunks.iter().enumerate() {
            if *n != i as u64 {
                problems.push(format!("{b}: hunk numbers are not 0..n-1 (found {n} at position {i})"));
                break;
            }
        }
        if closed {
            if let Ok(t) = std::fs::read(bdir.join("BANDTAIL")) {
                if let Ok(v) = serde_json::from_slice::<Value>(&t) {
                    if let Some(c) = v["index_hunk_count"].as_u64() {
                        if c != hunks.len() as u64 {
                            problems.push(format!("{b}: tail says {c} hunks, {} present", hunks.len()));
                        }
                    }
                }
            }
        }
        let mut prev: Option<String> = None;
        let last_idx = hunks.len().saturating_sub(1);
        for (i, (n, _, raw)) in hunks.iter().enumerate() {
            if raw.is_empty() {
                if closed || i != last_idx {
                    problems.push(format!("{b}: hunk {n} is empty"));
                }
                continue;
            }
            let entries: Vec<Value> = match snap::raw::Decoder::new().decompress_vec(raw).ok().and_then(|d| serde_json::from_slice(&d).ok()) {
                Some(e) => e,
                None => {
                    problems.push(format!("{b}: hunk {n} is not decodable"));
                    continue;
                }
            };
            if entries.is_empty() {
                problems.push(format!("{b}: hunk {n} holds no entries"));
            }
            for e in &entries {
                let ap = e["apath"].as_str().unwrap_or("").to_string();
                if let Some(p) = &prev {
                    if doc_order(p, &ap) != Ordering::Less {
                        problems.push(format!("{b}: entries not strictly increasing: {p:?} then {ap:?}"));
                    }
                }
                prev = Some(ap.clone());
                let kind = e["kind"].as_str().unwrap_or("");
                let addrs = e["addrs"].as_array().cloned().unwrap_or_default();
                if kind != "File" && !addrs.is_empty() {
                    problems.push(format!("{b}: {ap} ({kind}) carries addresses"));
                }
                if (kind == "Symlink") != e["target"].is_string() {
                    problems.push(format!("{b}: {ap} target presence does not match kind {kind}"));
                }
                for a in &addrs {
                    let h = a["hash"].as_str().unwrap_or("");
                    let start = a["start"].as_u64().unwrap_or(0) as usize;
                    let len = a["len"].as_u64().unwrap_or(0) as usize;
                    match block_len.get(h) {
                        None => problems.push(format!("{b}: {ap} refers to block {} which is missing", &h[..12.min(h.len())])),
                        Some(bl) if start + len > *bl => problems.push(format!("{b}: {ap} address {start}+{len} runs past the end of its {bl} byte block")),
                        _ => {}
                    }
                }
            }
        }
    }
    problems
}


/// (apath, mtime, mtime_nanos) of every entry recorded in one band, decoded independently of conserve.
pub fn recorded_mtimes(arch: &Path, band: &str) -> Vec<Value> {
    let mut out = Vec::new();
    let mut files: Vec<std::path::PathBuf> = Vec::new();
    if let Ok(subs) = std::fs::read_dir(arch.join(band).join("i")) {
        for sub in subs.flatten() {
            for f in std::fs::read_dir(sub.path()).into_iter().flatten().flatten() {
                files.push(f.path());
            }
        }
    }
    files.sort();
    for f in files {
        let raw = std::fs::read(&f).unwrap_or_default();
        if let Some(entries) = snap::raw::Decoder::new().decompress_vec(&raw).ok().and_then(|d| serde_json::from_slice::<Vec<Value>>(&d).ok()) {
            for e in entries {
                // (path, seconds, nanoseconds, recorded user, recorded group)
                out.push(serde_json::json!([e["apath"], e["mtime"], e["mtime_nanos"].as_u64().unwrap_or(0), e["user"], e["group"]]));
            }
        }
    }
    out
}
