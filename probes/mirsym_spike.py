#!/usr/bin/env python3-vt
"""Throw-away spike: interpret the MIR of Apath::{is_valid,is_prefix_of,cmp} symbolically with z3.
Not framework code; it exists to measure feasibility/cost for DESIGN.md."""
import re, sys, time, itertools
import z3

MIR = open(sys.argv[1]).read()
N = int(sys.argv[2]) if len(sys.argv) > 2 else 4   # max code points per string

# ---------------------------------------------------------------- parsing
def split_functions(txt):
    fns = {}
    for m in re.finditer(r'^(fn|const) ([^\n]*?) (?:= )?\{\n(.*?)^\}', txt, re.S | re.M):
        kind, head, body = m.group(1), m.group(2), m.group(3)
        depth = 0; name = None
        for i, c in enumerate(head):
            if c in '<[': depth += 1
            elif c in '>]' and head[i-1] != '-': depth -= 1
            elif depth == 0 and ((kind == 'fn' and c == '(') or (kind == 'const' and head[i:i+2] == ': ')):
                name = head[:i]; break
        if name: fns[name.strip()] = body
    return fns

FNS = split_functions(MIR)

def parse_blocks(body):
    blocks = {}
    for m in re.finditer(r'^    (bb\d+)(?: \(cleanup\))?: \{\n(.*?)^    \}', body, re.S | re.M):
        lines = [l.strip() for l in m.group(2).strip().split('\n') if l.strip()]
        blocks[m.group(1)] = lines
    return blocks

# place parser: returns (local, [proj...]) ; proj: ('deref',), ('field', i), ('downcast', name)
def parse_place(s):
    s = s.strip()
    pos = 0
    def parse(p):
        nonlocal s
        if s[p] == '_':
            m = re.match(r'_\d+', s[p:]); return (m.group(0), []), p + m.end()
        assert s[p] == '(', s[p:]
        p += 1
        if s[p] == '*':
            (loc, pr), p = parse(p + 1)
            assert s[p] == ')'
            return (loc, pr + [('deref',)]), p + 1
        (loc, pr), p = parse(p)
        rest = s[p:]
        m = re.match(r'\.(\d+): ', rest)
        if m:
            # skip type up to matching paren
            depth = 0; q = p + m.end()
            while True:
                c = s[q]
                if c in '(<[{': depth += 1
                elif c in ')>]}':
                    if depth == 0 and c == ')': break
                    depth -= 1
                q += 1
            return (loc, pr + [('field', int(m.group(1)))]), q + 1
        m = re.match(r' as (\w+(?:#\d+)?)\)', rest)
        if m:
            return (loc, pr + [('downcast', m.group(1))]), p + m.end()
        raise ValueError('place? ' + s)
    (loc, pr), p = parse(0)
    assert p == len(s), (s, p)
    return (loc, tuple(pr))

# ---------------------------------------------------------------- values
class SymStr:
    def __init__(self, chars, n): self.chars, self.n = chars, n   # chars: list of z3 Int; n: z3 Int / int
    def elem(self, k):
        e = z3.IntVal(-1)
        for i in reversed(range(len(self.chars))):
            e = z3.If(k == i, self.chars[i], e)
        return e
    def blen(self):
        t = z3.IntVal(0)
        for i, c in enumerate(self.chars):
            u = z3.If(c < 0x80, 1, z3.If(c < 0x800, 2, z3.If(c < 0x10000, 3, 4)))
            t = t + z3.If(i < self.n, u, 0)
        return t
    def slice(self, a, b=None):
        if b is None: return SymStr(self.chars[a:], self.n - a)
        return SymStr(self.chars[a:b], z3.IntVal(b - a))

def lit(s): return SymStr([z3.IntVal(ord(c)) for c in s], z3.IntVal(len(s)))

def str_eq(a, b):
    m = max(len(a.chars), len(b.chars))
    conj = [a.n == b.n]
    for i in range(m):
        ca = a.chars[i] if i < len(a.chars) else z3.IntVal(-1)
        cb = b.chars[i] if i < len(b.chars) else z3.IntVal(-1)
        conj.append(z3.Implies(z3.And(i < a.n, i < b.n), ca == cb))
    return z3.And(conj)

def str_cmp(a, b):   # returns z3 Int in {-1,0,1}
    m = max(len(a.chars), len(b.chars))
    res = z3.If(a.n < b.n, -1, z3.If(a.n > b.n, 1, 0))   # all compared equal -> by length
    for i in reversed(range(m)):
        ca = a.chars[i] if i < len(a.chars) else z3.IntVal(-1)
        cb = b.chars[i] if i < len(b.chars) else z3.IntVal(-1)
        both = z3.And(i < a.n, i < b.n)
        res = z3.If(both, z3.If(ca < cb, -1, z3.If(ca > cb, 1, res)),
                    z3.If(a.n < b.n, -1, z3.If(a.n > b.n, 1, 0)))
    return res

def starts_with(a, b):
    conj = [b.n <= a.n]
    for i in range(len(b.chars)):
        ca = a.chars[i] if i < len(a.chars) else z3.IntVal(-1)
        conj.append(z3.Implies(i < b.n, ca == b.chars[i]))
    return z3.And(conj)

class Enum:
    def __init__(self, discr, fields=None, name=None): self.discr, self.fields, self.name = discr, fields or {}, name
class Split:
    def __init__(self, s, pos=0, finished=False): self.s, self.pos, self.finished = s, pos, finished
class Ref:
    def __init__(self, frame, place): self.frame, self.place = frame, place
class Tup:
    def __init__(self, items): self.items = list(items)
class Struct(Tup): pass

SOME, NONE = 1, 0
STATS = dict(paths=0, queries=0, forks=0, solver_s=0.0)

class Path(Exception): pass

class Engine:
    def __init__(self):
        self.solver = z3.Solver()
    def feasible(self, pc, cond):
        STATS['queries'] += 1
        t = time.time()
        self.solver.push(); self.solver.add(*pc); self.solver.add(cond)
        r = self.solver.check(); self.solver.pop()
        STATS['solver_s'] += time.time() - t
        assert r != z3.unknown
        return r == z3.sat

    # run function `name` with args; yields (pc, retval) for each path
    def call(self, name, args, pc):
        if name.startswith('const '): name = name[6:]
        body = FNS[name]
        blocks = parse_blocks(body)
        frame = {'_0': None}
        for i, a in enumerate(args): frame['_%d' % (i + 1)] = a
        yield from self.run(blocks, 'bb0', frame, pc, name)

    def read(self, frame, place):
        loc, proj = place
        v = frame[loc]; fr = frame
        for p in proj:
            if p[0] == 'deref':
                assert isinstance(v, Ref), (place, v)
                v = self.read(v.frame, v.place)
            elif p[0] == 'field':
                if isinstance(v, Enum): v = v.fields[p[1]]
                elif isinstance(v, Tup): v = v.items[p[1]]
                elif isinstance(v, dict) and v.get('kind') == 'Apath': v = v['s'] if p[1] == 0 else None
                else: raise TypeError((place, v))
            elif p[0] == 'downcast': pass
        return v
    def write(self, frame, place, val):
        loc, proj = place
        if not proj: frame[loc] = val; return
        raise NotImplementedError(place)

    def operand(self, frame, s):
        s = s.strip()
        m = re.match(r'(copy|move) (.+)$', s)
        if m: return self.read(frame, parse_place(m.group(2)))
        m = re.match(r"const '(.+)'$", s)
        if m:
            c = m.group(1)
            c = {'\\0': '\0'}.get(c, c)
            return z3.IntVal(ord(c))
        m = re.match(r'const (\d+)_(usize|isize|u\d+|i\d+)$', s)
        if m: return z3.IntVal(int(m.group(1)))
        m = re.match(r'const (true|false)$', s)
        if m: return z3.BoolVal(m.group(1) == 'true')
        m = re.match(r'const "(.*)"$', s)
        if m: return lit(m.group(1))
        m = re.match(r'const (.+promoted\[\d+\])$', s)
        if m:
            key = [k for k in FNS if k.endswith(m.group(1).split('::')[-2] + '::' + m.group(1).split('::')[-1])]
            assert len(key) == 1, (s, key)
            res = list(self.call(key[0], [], []))
            assert len(res) == 1
            return res[0][1]
        raise ValueError('operand? ' + s)

    def rvalue(self, frame, s):
        s = s.strip()
        if s.startswith('&mut '): return Ref(frame, parse_place(s[5:]))
        if s.startswith('&'): return Ref(frame, parse_place(s[1:]))
        m = re.match(r'discriminant\((.+)\)$', s)
        if m: return self.read(frame, parse_place(m.group(1))).discr
        m = re.match(r'(Eq|Ne|Lt|Le|Gt|Ge)\((.+), (.+)\)$', s)
        if m:
            a, b = self.operand(frame, m.group(2)), self.operand(frame, m.group(3))
            return {'Eq': a == b, 'Ne': a != b, 'Lt': a < b, 'Le': a <= b, 'Gt': a > b, 'Ge': a >= b}[m.group(1)]
        m = re.match(r'std::cmp::Ordering::(Less|Equal|Greater)$', s)
        if m: return Enum(z3.IntVal({'Less': -1, 'Equal': 0, 'Greater': 1}[m.group(1)]), name='Ordering')
        m = re.match(r'std::option::Option::<.*>::Some\((.+)\)$', s)
        if m: return Enum(z3.IntVal(SOME), {0: self.operand(frame, m.group(1))})
        m = re.match(r'std::ops::RangeFrom::<usize> \{ start: (.+) \}$', s)
        if m: return ('rangefrom', self.operand(frame, m.group(1)))
        m = re.match(r'\((.+), (.+)\)$', s)
        if m and not s.startswith('(*') and not re.match(r'\(.*\.\d+: ', s):
            return Tup([self.operand(frame, m.group(1)), self.operand(frame, m.group(2))])
        return self.operand(frame, s)

    def run(self, blocks, bb, frame, pc, fname):
        while True:
            lines = blocks[bb]
            for ln in lines[:-1]:
                ln = ln.rstrip(';')
                if ln.startswith('StorageLive') or ln.startswith('StorageDead') or ln.startswith('nop'): continue
                lhs, rhs = ln.split(' = ', 1)
                self.write(frame, parse_place(lhs), self.rvalue(frame, rhs))
            t = lines[-1].rstrip(';')
            if t == 'return': yield (pc, frame['_0']); return
            if t == 'unreachable': return
            m = re.match(r'goto -> (bb\d+)$', t)
            if m: bb = m.group(1); continue
            m = re.match(r'switchInt\((.+)\) -> \[(.+)\]$', t)
            if m:
                v = self.operand(frame, m.group(1))
                arms = [a.strip() for a in m.group(2).split(',')]
                taken = []
                for a in arms:
                    k, tgt = a.split(': ')
                    if k == 'otherwise':
                        cond = z3.And([c == False for c, _ in taken]) if taken else z3.BoolVal(True)
                    else:
                        kv = int(k)
                        if z3.is_bool(v): cond = (v == (kv != 0))
                        else:
                            if kv == 255: kv = -1
                            cond = (v == kv)
                    taken.append((cond, tgt))
                live = [(c, tgt) for c, tgt in taken if self.feasible(pc, c)]
                if len(live) > 1: STATS['forks'] += 1
                for c, tgt in live[1:]:
                    f2 = self.clone_frame(frame)
                    yield from self.run(blocks, tgt, f2, pc + [c], fname)
                if not live: return
                pc = pc + [live[0][0]]; bb = live[0][1]; continue
            m = re.match(r'(.+?) = (.+)\((.*)\) -> \[return: (bb\d+), unwind.*\]$', t)
            if m:
                dest, callee, argstr, ret = m.groups()
                args = [self.operand(frame, a) for a in self.split_args(argstr)] if argstr.strip() else []
                alts = list(self.model(callee, args, pc, frame))
                first = True
                for cond, val in alts:
                    if cond is not True and not self.feasible(pc, cond): continue
                    f2 = frame if first and len(alts) == 1 else self.clone_frame(frame)
                    self.write(f2, parse_place(dest), val)
                    npc = pc if cond is True else pc + [cond]
                    yield from self.run(blocks, ret, f2, npc, fname)
                return
            raise ValueError('terminator? ' + t)

    def clone_frame(self, frame):
        import copy
        f2 = {}
        memo = {}
        def cp(v):
            if isinstance(v, Split): return Split(v.s, v.pos, v.finished)
            if isinstance(v, Ref): return Ref(f2 if v.frame is frame else v.frame, v.place)
            if isinstance(v, Enum): return Enum(v.discr, {k: cp(x) for k, x in v.fields.items()}, v.name)
            if isinstance(v, Tup): return type(v)([cp(x) for x in v.items])
            return v
        for k, v in frame.items(): f2[k] = cp(v)
        return f2

    def split_args(self, s):
        out, depth, cur = [], 0, ''
        for c in s:
            if c in '(<[{': depth += 1
            if c in ')>]}': depth -= 1
            if c == ',' and depth == 0: out.append(cur); cur = ''
            else: cur += c
        if cur.strip(): out.append(cur)
        return out

    def deref(self, v):
        while isinstance(v, Ref): v = self.read(v.frame, v.place)
        return v

    # models: yield (cond|True, value)
    def model(self, callee, args, pc, frame):
        c = re.sub(r"'_ ?|'[a-z]+ ", '', callee)
        a = [self.deref(x) if not (isinstance(x, Ref) and isinstance(self.read(x.frame, x.place), Split)) else x for x in args]
        if c in ('<std::string::String as Deref>::deref',): yield True, a[0]; return
        if c == 'core::str::<impl str>::split::<char>': yield True, Split(a[0]); return
        if c == '<std::str::Split<, char> as IntoIterator>::into_iter' or c == "<std::str::Split<char> as IntoIterator>::into_iter": yield True, a[0]; return
        if c.endswith('as Iterator>::next') and 'Split' in c:
            sp = self.read(args[0].frame, args[0].place) if isinstance(args[0], Ref) else args[0]
            if sp.finished: yield True, Enum(z3.IntVal(NONE)); return
            s = sp.s
            nochar_before = []
            for j in range(sp.pos, len(s.chars)):
                cond = z3.And(j < s.n, s.chars[j] == ord('/'), *nochar_before)
                part = SymStr(s.chars[sp.pos:j], z3.IntVal(j - sp.pos))
                yield cond, ('SPLITNEXT', args[0].place, j + 1, False, Enum(z3.IntVal(SOME), {0: part}))
                nochar_before.append(z3.Or(j >= s.n, s.chars[j] != ord('/')))
            part = SymStr(s.chars[sp.pos:], s.n - sp.pos)
            yield z3.And(*nochar_before) if nochar_before else True, ('SPLITNEXT', args[0].place, sp.pos, True, Enum(z3.IntVal(SOME), {0: part}))
            return
        if c.startswith('std::option::Option::<&str>::expect'):
            yield a[0].discr == SOME, a[0].fields.get(0); return   # None -> panic path dropped (reported separately in real tool)
        if c == '<str as Ord>::cmp': yield True, Enum(str_cmp(a[0], a[1]), name='Ordering'); return
        if c == 'core::str::<impl str>::starts_with::<char>':
            s = a[0]; yield True, z3.And(s.n >= 1, s.chars[0] == a[1]) if s.chars else z3.BoolVal(False); return
        if c == 'core::str::<impl str>::ends_with::<char>':
            s = a[0]; yield True, z3.And(s.n >= 1, s.elem(s.n - 1) == a[1]); return
        if c in ('core::str::<impl str>::len', 'std::string::String::len'): yield True, a[0].blen(); return
        if c == 'core::str::<impl str>::is_empty': yield True, a[0].n == 0; return
        if c == '<str as std::ops::Index<std::ops::RangeFrom<usize>>>::index':
            start = a[1][1]; k = z3.simplify(start).as_long()
            # byte index k==1 on a string starting with ASCII '/' (checked by caller path cond); char boundary assumed & asserted
            yield True, a[0].slice(k); return
        if c == '<&str as PartialEq>::eq' or c == '<std::string::String as PartialEq>::eq': yield True, str_eq(a[0], a[1]); return
        if c == 'core::str::<impl str>::contains::<char>':
            s = a[0]; yield True, z3.Or([z3.And(i < s.n, s.chars[i] == a[1]) for i in range(len(s.chars))] or [z3.BoolVal(False)]); return
        if c == 'core::str::<impl str>::starts_with::<&std::string::String>': yield True, starts_with(a[0], a[1]); return
        if c == '<usize as Ord>::cmp':
            x, y = a[0], a[1]; yield True, Enum(z3.If(x < y, -1, z3.If(x > y, 1, 0)), name='Ordering'); return
        if c == 'core::str::<impl str>::chars': yield True, ('chars', a[0]); return
        if c == '<Chars<> as Iterator>::nth':
            ch = self.deref(args[0]); s = ch[1]; k = a[1]
            yield z3.And(k >= 0, k < s.n), Enum(z3.IntVal(SOME), {0: s.elem(k)})
            yield z3.Or(k < 0, k >= s.n), Enum(z3.IntVal(NONE)); return
        if c == '<std::option::Option<char> as PartialEq>::eq':
            x, y = a[0], a[1]
            yield True, z3.And(x.discr == y.discr, z3.Implies(x.discr == SOME, x.fields.get(0, z3.IntVal(0)) == y.fields.get(0, z3.IntVal(0)))); return
        raise NotImplementedError('model for ' + c)

    def write(self, frame, place, val):
        if isinstance(val, tuple) and val and val[0] == 'SPLITNEXT':
            _, spplace, pos, fin, ret = val
            sp = self.read(frame, spplace)
            sp.pos, sp.finished = pos, fin
            val = ret
        loc, proj = place
        if not proj: frame[loc] = val; return
        raise NotImplementedError(place)

def find(suffix):
    k = [n for n in FNS if n.endswith(suffix) and 'promoted' not in n and n.startswith('apath::')]
    assert len(k) == 1, (suffix, k)
    return k[0]


# ---------------------------------------------------------------- harnesses
def sym_str(name, n=N):
    cs = [z3.Int(f'{name}_c{i}') for i in range(n)]
    ln = z3.Int(f'{name}_n')
    cons = [ln >= 0, ln <= n] + [z3.And(c >= 0, c <= 0x10FFFF, z3.Or(c < 0xD800, c > 0xDFFF)) for c in cs]
    return SymStr(cs, ln), cons

def valid_oracle(s):
    n, c = s.n, s.chars
    L = len(c)
    def at(i): return c[i] if i < L else z3.IntVal(-1)
    SL, DOT = ord('/'), ord('.')
    conj = [n >= 1, at(0) == SL]
    rest = []
    for i in range(0, L):
        rest.append(z3.Implies(z3.And(i + 1 < n), z3.Not(z3.And(at(i) == SL, at(i + 1) == SL))))   # empty component
    rest.append(z3.Implies(n > 1, s.elem(n - 1) != SL))                                            # trailing empty
    for i in range(1, L):
        rest.append(z3.Implies(i < n, at(i) != 0))                                                 # NUL
        end1 = z3.Or(i + 1 == n, z3.And(i + 1 < n, at(i + 1) == SL))
        rest.append(z3.Implies(i < n, z3.Not(z3.And(at(i - 1) == SL, at(i) == DOT, end1))))       # "."
        end2 = z3.Or(i + 2 == n, z3.And(i + 2 < n, at(i + 2) == SL))
        rest.append(z3.Implies(i + 1 < n, z3.Not(z3.And(at(i - 1) == SL, at(i) == DOT, at(i + 1) == DOT, end2))))  # ".."
    return z3.And(conj + [z3.Implies(n > 1, z3.And(rest))])

def apath(s): return {'kind': 'Apath', 's': s}

def show(model, s):
    n = model.eval(s.n, model_completion=True).as_long()
    return ''.join(chr(model.eval(c, model_completion=True).as_long()) for c in s.chars[:n])

def check_is_valid():
    E = Engine(); s, cons = sym_str('s')
    t = time.time(); bad = None; npaths = 0
    for pc, ret in E.call(find('::is_valid'), [s], cons):
        npaths += 1
        E.solver.push(); E.solver.add(*pc); E.solver.add(ret != valid_oracle(s))
        r = E.solver.check(); STATS['queries'] += 1
        if r == z3.sat: bad = show(E.solver.model(), s)
        E.solver.pop()
    print(f'is_valid == oracle, N={N}: paths={npaths} counterexample={bad!r} wall={time.time()-t:.1f}s')

def check_prefix():
    E = Engine(); a, ca = sym_str('a'); b, cb = sym_str('b')
    pre = ca + cb + [valid_oracle(a), valid_oracle(b)]
    SL = ord('/')
    oracle = z3.Or(str_eq(a, b), z3.And(a.n == 1), z3.And(a.n < b.n, starts_with(b, a), b.elem(a.n) == SL))
    t = time.time(); bad = []; npaths = 0
    A, B = apath(a), apath(b)
    fr = {'A': A, 'B': B}
    for pc, ret in E.call(find('::is_prefix_of'), [Ref(fr, ('A', ())), Ref(fr, ('B', ()))], pre):
        npaths += 1
        E.solver.push(); E.solver.add(*pc); E.solver.add(ret != oracle)
        r = E.solver.check(); STATS['queries'] += 1
        if r == z3.sat:
            m = E.solver.model(); bad.append((show(m, a), show(m, b), str(m.eval(ret)), str(m.eval(oracle))))
        E.solver.pop()
    print(f'is_prefix_of == oracle, N={N}: paths={npaths} wall={time.time()-t:.1f}s counterexamples={bad}')

def run_cmp(E, x, y, pre):
    fr = {'X': apath(x), 'Y': apath(y)}
    return list(E.call(find('::cmp'), [Ref(fr, ('X', ())), Ref(fr, ('Y', ()))], pre))

def check_cmp():
    E = Engine(); a, ca = sym_str('a'); b, cb = sym_str('b')
    pre = ca + cb + [valid_oracle(a), valid_oracle(b)]
    t = time.time()
    ab = run_cmp(E, a, b, pre)
    n = 0; bad = []
    for pc1, r1 in ab:
        for pc2, r2 in run_cmp(E, b, a, pc1):
            n += 1
            E.solver.push(); E.solver.add(*pc2)
            E.solver.add(z3.Or(r1.discr != -r2.discr, (r1.discr == 0) != str_eq(a, b)))
            r = E.solver.check(); STATS['queries'] += 1
            if r == z3.sat: m = E.solver.model(); bad.append((show(m, a), show(m, b)))
            E.solver.pop()
    print(f'cmp antisymmetry+eq, N={N}: path pairs={n} wall={time.time()-t:.1f}s counterexamples={bad[:3]}')

if __name__ == '__main__':
    which = sys.argv[3] if len(sys.argv) > 3 else 'all'
    if which in ('all', 'valid'): check_is_valid()
    if which in ('all', 'prefix'): check_prefix()
    if which in ('all', 'cmp'): check_cmp()
    print(STATS)

def check_cmp_vs_plain():
    E = Engine(); a, ca = sym_str('a'); b, cb = sym_str('b')
    pre = ca + cb + [valid_oracle(a), valid_oracle(b)]
    t = time.time(); n = 0; bad = []
    for pc, r in run_cmp(E, a, b, pre):
        n += 1
        E.solver.push(); E.solver.add(*pc); E.solver.add(r.discr != str_cmp(a, b))
        if E.solver.check() == z3.sat:
            m = E.solver.model(); bad.append((show(m, a), show(m, b), str(m.eval(r.discr))))
        E.solver.pop()
    print(f'cmp vs plain string order (expected to differ), N={N}: paths={n} wall={time.time()-t:.1f}s cex={bad[:4]}')
if len(sys.argv) > 3 and sys.argv[3] == 'plain': check_cmp_vs_plain()
