#[cfg(kani)]
mod verif {
    use super::*;
    use crate::index::entry::IndexEntry;
    use crate::{EntryTrait, Kind};

    #[kani::proof]
    #[kani::unwind(3)]
    fn mtime_roundtrip() {
        // kernel view: floor seconds + non-negative nanoseconds
        let sec: i64 = kani::any();
        let nsec: i32 = kani::any();
        kani::assume(nsec >= 0 && nsec < 1_000_000_000);
        kani::assume(sec > -30_000_000_000 && sec < 30_000_000_000);
        let ts: Timestamp = match Timestamp::new(sec, nsec) { Ok(t) => t, Err(e) => { std::mem::forget(e); kani::assume(false); unreachable!() } };
        let m_sec = ts.as_second();
        let sub = ts.subsec_nanosecond();
        kani::cover!(sub < 0);
        assert!(sub >= 0); // metadata_from does `.try_into().unwrap()` to u32
        let m_nanos: u32 = sub as u32;
        let e = IndexEntry { apath: crate::Apath::root(), kind: Kind::File, mtime: m_sec, mtime_nanos: m_nanos,
            unix_mode: Default::default(), owner: Default::default(), addrs: Vec::new(), target: None };
        let back = e.mtime();
        assert!(back == ts);
        let ft = back.to_file_time();
        assert!(ft.unix_seconds() == sec);
        assert!(ft.nanoseconds() == nsec as u32);
        std::mem::forget(e);
    }
}
