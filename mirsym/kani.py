"""E1: run Kani proof harnesses of /verif/kani against /repo (integer kernels)."""
import os
import re
import subprocess
import threading
import time

from . import runner

KANI_DIR = os.path.join(runner.VERIF, 'kani')


def run_harness(name, timeout_s=1500, playback=False):
    """-> dict(status= 'success'|'failed'|'inconclusive', checks=, failed=[...], covers=, time_s=, log=)"""
    t0 = time.time()
    target = os.path.join(runner.WORK, 'kani-target-' + name)
    lock_src = os.path.join(runner.REPO, 'Cargo.lock')
    try:
        with open(lock_src) as f, open(os.path.join(KANI_DIR, 'Cargo.lock'), 'w') as g:
            g.write(f.read())
    except OSError:
        pass
    cmd = ['cargo', 'kani', '-Z', 'stubbing', '--target-dir', target, '--harness', 'proofs::' + name, '--exact',
           '--output-format', 'terse']
    if playback:
        cmd += ['-Z', 'concrete-playback', '--concrete-playback=print']
    sh = 'ulimit -v 30000000; exec timeout %d %s' % (timeout_s, ' '.join(cmd))
    p = subprocess.run(['bash', '-c', sh], cwd=KANI_DIR, env=runner.ENV, stdout=subprocess.PIPE,
                       stderr=subprocess.STDOUT, text=True)
    out = p.stdout
    if 'rustix' in out and 'error' in out and 'VERIFICATION' not in out:
        subprocess.run('rm -rf %s/kani/debug/build/rustix* %s/debug/build/rustix*' % (target, target), shell=True)
        p = subprocess.run(['bash', '-c', sh], cwd=KANI_DIR, env=runner.ENV, stdout=subprocess.PIPE,
                           stderr=subprocess.STDOUT, text=True)
        out = p.stdout
    res = {'harness': name, 'time_s': round(time.time() - t0, 1), 'failed': [], 'covers': None, 'checks': None}
    m = re.search(r'\*\* (\d+) of (\d+) failed', out)
    if m:
        res['checks'] = int(m.group(2))
        res['n_failed'] = int(m.group(1))
    m = re.search(r'\*\* (\d+) of (\d+) cover properties satisfied', out)
    if m:
        res['covers'] = [int(m.group(1)), int(m.group(2))]
    res['failed'] = re.findall(r'Failed Checks: (.*)\n File: "([^"]*)", line (\d+), in (\S+)', out)
    m = re.search(r'Verification Time: ([\d.]+)s', out)
    if m:
        res['cbmc_s'] = float(m.group(1))
    if 'VERIFICATION:- SUCCESSFUL' in out:
        res['status'] = 'success'
    elif 'VERIFICATION:- FAILED' in out and 'Status: ERROR' not in out and p.returncode not in (124, 137):
        res['status'] = 'failed'
        if any('unwinding assertion' in f[0] for f in res['failed']):
            res['status'] = 'inconclusive'
            res['why'] = 'unwinding assertion failed: unwind bound too small'
    else:
        res['status'] = 'inconclusive'
        res['why'] = 'timeout/out of memory/build error (rc=%s)' % p.returncode
        res['tail'] = out[-1500:]
    if playback:
        res['playback'] = parse_playback(out)
    return res


def parse_playback(out):
    """Extract the concrete byte vectors Kani prints for a failing harness: list of lists of ints."""
    vecs = []
    for m in re.finditer(r'vec!\[([\d,\s]*)\]', out):
        body = m.group(1).strip()
        vecs.append([int(x) for x in body.split(',') if x.strip()])
    return vecs


def le_int(bs, signed=True):
    return int.from_bytes(bytes(bs), 'little', signed=signed)


def run_many(names, timeout_s=1500, playback_on_fail=()):
    out = {}

    def work(n):
        r = run_harness(n, timeout_s)
        if r['status'] == 'failed' and n in playback_on_fail:
            r2 = run_harness(n, timeout_s, playback=True)
            r['playback'] = r2.get('playback')
        out[n] = r
    ths = [threading.Thread(target=work, args=(n,)) for n in names]
    for t in ths:
        t.start()
    for t in ths:
        t.join()
    return out
