"""C11 / C12 / C16(a): Apath::{is_valid, cmp, is_prefix_of, append} on symbolic strings.

Strings are sequences of at most N code points over the whole scalar-value range; the oracles
below are written independently of the implementation, directly from doc/format.md and the
property statements, as z3 formulas over the same symbolic strings.
"""
import random

import z3

from ..interp import Explorer, Stats, Program
from ..values import *  # noqa
from .. import runner

SL, DOT = ord('/'), ord('.')


def sym_str(ex, label, n):
    cs = [ex.fresh_int(label + '_c') for _ in range(n)]
    ln = ex.fresh_int(label + '_n', 0, n)
    for c in cs:
        ex.assume(z3.And(c >= 0, c <= 0x10FFFF, z3.Or(c < 0xD800, c > 0xDFFF)))
    return SymStr(cs, ln)


def at(s, i):
    return s.chars[i] if i < len(s.chars) else z3.IntVal(-1)


def valid_oracle(s):
    """Starts with '/', and either is "/" or has no empty, ".", ".." component and no NUL."""
    n, L = s.n, len(s.chars)
    conj = [n >= 1, at(s, 0) == SL]
    rest = []
    for i in range(0, L):
        rest.append(z3.Implies(i + 1 < n, z3.Not(z3.And(at(s, i) == SL, at(s, i + 1) == SL))))
    rest.append(z3.Implies(n > 1, s.elem(n - 1) != SL))
    for i in range(1, L):
        rest.append(z3.Implies(i < n, at(s, i) != 0))
        end1 = z3.Or(i + 1 == n, z3.And(i + 1 < n, at(s, i + 1) == SL))
        rest.append(z3.Implies(i < n, z3.Not(z3.And(at(s, i - 1) == SL, at(s, i) == DOT, end1))))
        end2 = z3.Or(i + 2 == n, z3.And(i + 2 < n, at(s, i + 2) == SL))
        rest.append(z3.Implies(i + 1 < n, z3.Not(z3.And(at(s, i - 1) == SL, at(s, i) == DOT, at(s, i + 1) == DOT, end2))))
    return z3.And(conj + [z3.Implies(n > 1, z3.And(rest))])


def order_key(s):
    """Documented order as a key sequence: plain lexicographic comparison of these integer sequences
    (a proper prefix first) is the apath order.  A '/' that starts a directory component maps to 1, the last
    '/' (which starts the final name) maps to 0, any other code point c to c+2: so within one directory the
    direct children (0...) precede everything in subdirectories (1...), a shorter component precedes its
    extensions, and components compare by code point (= byte-wise for UTF-8)."""
    L = len(s.chars)
    keys = []
    for i in range(L):
        later_slash = z3.Or([z3.And(j < s.n, at(s, j) == SL) for j in range(i + 1, L)] or [z3.BoolVal(False)])
        keys.append(z3.If(at(s, i) == SL, z3.If(later_slash, 1, 0), at(s, i) + 2))
    return SymStr(keys, s.n)


def cmp_oracle(a, b):
    return str_cmp(order_key(a), order_key(b))


def prefix_oracle(a, b):
    """a is b itself, or the root, or b = a + '/' + rest."""
    a, b = as_symstr(a), as_symstr(b)
    return z3.Or(zbool(str_eq(a, b)), zint(a.n) == 1,
                 z3.And(zint(a.n) < zint(b.n), zbool(str_starts_with(b, a)), zint(b.elem(a.n)) == SL))


def show(model, s):
    n = model.eval(zint(s.n), model_completion=True).as_long()
    return [model.eval(zint(c), model_completion=True).as_long() for c in s.chars[:n]]


def txt(cps):
    return ''.join(chr(c) for c in cps)


def apath_val(s):
    return Agg('apath::Apath', None, [s])


# --------------------------------------------------------------------------------------------
def run_explorer(prog, harness, on_path, deadline=None, max_paths=200000):
    E = Explorer(prog, Stats(), deadline=deadline, max_paths=max_paths)
    E.run_all(harness, on_path)
    return E


def finish_obligation(rep, name, E, bad, extra_detail=None):
    st = E.stats.as_dict()
    rep.functions |= E.stats.functions
    rep.models |= E.stats.models_used
    if E.inconclusive:
        rep.inconclusive.extend('%s: %s' % (name, x) for x in E.inconclusive[:5])
        rep.add_obligation(name, 'inconclusive', st, E.inconclusive[:3])
    elif bad:
        rep.add_obligation(name, 'violated', st, bad[:5])
    else:
        rep.add_obligation(name, 'holds', st, extra_detail)


def native_apath(items, name):
    out, path = runner.replay({'kind': 'apath_batch', 'items': items}, name)
    return out.get('results'), path


def ob_is_valid(rep, prog, N, deadline):
    bad = []

    def h(ex):
        s = sym_str(ex, 's', N)
        return s, ex.call('::is_valid', [s])

    def on_path(ex, out):
        if out[0] == 'panic':
            bad.append(('panic', str(out[1])))
            r, m = ex.E.check()
            cps = show(m, sym_holder[0]) if m is not None and sym_holder else []
            return
        if out[0] != 'ok':
            return
        s, r = out[1]
        ok, m = ex.check_holds(zbool(r) == valid_oracle(s))
        if not ok:
            cps = show(m, s)
            got = m.eval(zbool(r), model_completion=True)
            res, path = native_apath([{'op': 'is_valid', 'a': cps}], 'C11_is_valid')
            expected = not z3.is_true(got)
            reproduced = res is not None and res[0] == z3.is_true(got)
            what = 'Apath::is_valid(%r) returns %s but the documented rule says %s' % (txt(cps), got, expected)
            rep.violation('is_valid:differs-from-rule', what, path, reproduced)
            bad.append(what)
        elif len(rep.samples) < 3:
            r2, m2 = ex.E.check()
            if m2 is not None:
                rep.samples.append({'obligation': 'is_valid', 'witness': txt(show(m2, s)),
                                    'is_valid': str(m2.eval(zbool(r), model_completion=True))})
    sym_holder = []
    E = run_explorer(prog, h, on_path, deadline)
    finish_obligation(rep, 'is_valid == documented rule (N<=%d code points)' % N, E, bad)


def ob_cmp(rep, prog, N, deadline):
    """cmp(a,b) == oracle order, antisymmetry and Equal <=> identical, on pairs of valid paths."""
    bad = []

    def h(ex):
        a, b = sym_str(ex, 'a', N), sym_str(ex, 'b', N)
        ex.assume(valid_oracle(a))
        ex.assume(valid_oracle(b))
        A, B = apath_val(a), apath_val(b)
        r1 = ex.call('192:1: 192:19>::cmp' if False else _CMP[0], [Ref([A], 0), Ref([B], 0)])
        r2 = ex.call(_CMP[0], [Ref([B], 0), Ref([A], 0)])
        return a, b, r1.variant, r2.variant

    def on_path(ex, out):
        if out[0] == 'panic':
            r, m = ex.E.check()
            what = 'Apath::cmp panics: %s' % out[1]
            rep.violation('cmp:panic', what, '', False)
            bad.append(what)
            return
        if out[0] != 'ok':
            return
        a, b, r1, r2 = out[1]
        r1, r2 = zint(r1), zint(r2)
        prop = z3.And(r1 == cmp_oracle(a, b), r1 == -r2, (r1 == 0) == str_eq(a, b))
        ok, m = ex.check_holds(prop)
        if not ok:
            ca, cb = show(m, a), show(m, b)
            g1 = m.eval(r1, model_completion=True).as_long()
            g2 = m.eval(r2, model_completion=True).as_long()
            want = m.eval(cmp_oracle(a, b), model_completion=True).as_long()
            res, path = native_apath([{'op': 'cmp', 'a': ca, 'b': cb}, {'op': 'cmp', 'a': cb, 'b': ca}], 'C11_cmp')
            reproduced = res is not None and res[0] == g1 and res[1] == g2
            what = 'Apath::cmp(%r, %r) = %d, reversed = %d; documented order says %d' % (txt(ca), txt(cb), g1, g2, want)
            rep.violation('cmp:differs-from-documented-order', what, path, reproduced)
            bad.append(what)
        elif len([s for s in rep.samples if s.get('obligation') == 'cmp']) < 3:
            r, m2 = ex.E.check()
            if m2 is not None:
                rep.samples.append({'obligation': 'cmp', 'a': txt(show(m2, a)), 'b': txt(show(m2, b)),
                                    'cmp': m2.eval(r1, model_completion=True).as_long()})
    E = run_explorer(prog, h, on_path, deadline)
    finish_obligation(rep, 'cmp == documented total order, antisymmetric, Equal<=>same (pairs, N<=%d)' % N, E, bad)


_CMP = ['']


def ob_cmp_transitive(rep, prog, N, deadline):
    bad = []

    def h(ex):
        a, b, c = sym_str(ex, 'a', N), sym_str(ex, 'b', N), sym_str(ex, 'c', N)
        for s in (a, b, c):
            ex.assume(valid_oracle(s))
        A, B, C = apath_val(a), apath_val(b), apath_val(c)
        ab = ex.call(_CMP[0], [Ref([A], 0), Ref([B], 0)]).variant
        # only the interesting half: a <= b
        ex.assume(zint(ab) <= 0)
        bc = ex.call(_CMP[0], [Ref([B], 0), Ref([C], 0)]).variant
        ex.assume(zint(bc) <= 0)
        ac = ex.call(_CMP[0], [Ref([A], 0), Ref([C], 0)]).variant
        return a, b, c, ab, bc, ac

    def on_path(ex, out):
        if out[0] != 'ok':
            if out[0] == 'panic':
                bad.append(str(out[1]))
                rep.violation('cmp:panic', 'Apath::cmp panics: %s' % out[1], '', False)
            return
        a, b, c, ab, bc, ac = out[1]
        ab, bc, ac = zint(ab), zint(bc), zint(ac)
        prop = z3.And(ac <= 0, z3.Implies(z3.Or(ab < 0, bc < 0), ac < 0))
        ok, m = ex.check_holds(prop)
        if not ok:
            ca, cb, cc = show(m, a), show(m, b), show(m, c)
            res, path = native_apath([{'op': 'cmp', 'a': ca, 'b': cb}, {'op': 'cmp', 'a': cb, 'b': cc},
                                      {'op': 'cmp', 'a': ca, 'b': cc}], 'C11_cmp_trans')
            reproduced = res is not None and res[0] <= 0 and res[1] <= 0 and not (res[2] < 0 or (res[2] == 0 and res[0] == 0 and res[1] == 0))
            what = 'Apath::cmp is not transitive on %r <= %r <= %r (native results %r)' % (txt(ca), txt(cb), txt(cc), res)
            rep.violation('cmp:not-transitive', what, path, reproduced)
            bad.append(what)
    E = run_explorer(prog, h, on_path, deadline)
    finish_obligation(rep, 'cmp transitive on triples (N<=%d)' % N, E, bad)


def ob_prefix(rep, prog, N, deadline):
    bad = []

    def h(ex):
        a, b = sym_str(ex, 'a', N), sym_str(ex, 'b', N)
        ex.assume(valid_oracle(a))
        ex.assume(valid_oracle(b))
        r = ex.call('::is_prefix_of', [Ref([apath_val(a)], 0), Ref([apath_val(b)], 0)])
        return a, b, r

    def on_path(ex, out):
        if out[0] == 'panic':
            r, m = ex.E.check()
            what = 'Apath::is_prefix_of panics: %s' % out[1]
            rep.violation('is_prefix_of:panic', what, '', False)
            bad.append(what)
            return
        if out[0] != 'ok':
            return
        a, b, r = out[1]
        ok, m = ex.check_holds(zbool(r) == prefix_oracle(a, b))
        if not ok:
            ca, cb = show(m, a), show(m, b)
            got = z3.is_true(m.eval(zbool(r), model_completion=True))
            res, path = native_apath([{'op': 'is_prefix_of', 'a': ca, 'b': cb}], 'C12_is_prefix_of')
            reproduced = res is not None and res[0] == got
            kind = 'admits-non-descendant' if got else 'misses-descendant'
            what = 'Apath(%r).is_prefix_of(%r) = %s, but whole-component ancestry says %s' % (txt(ca), txt(cb), got, not got)
            rep.violation('is_prefix_of:' + kind, what, path, reproduced)
            bad.append(what)
        elif len([s for s in rep.samples if s.get('obligation') == 'is_prefix_of']) < 3:
            r0, m2 = ex.E.check()
            if m2 is not None:
                rep.samples.append({'obligation': 'is_prefix_of', 'a': txt(show(m2, a)), 'b': txt(show(m2, b)),
                                    'result': str(m2.eval(zbool(r), model_completion=True))})
    E = run_explorer(prog, h, on_path, deadline)
    finish_obligation(rep, 'is_prefix_of == whole-component ancestor-or-self (pairs, N<=%d)' % N, E, bad)


def ob_append(rep, prog, N, deadline):
    """append(parent, name) is valid and is a child of parent, for a valid parent and a legal component name."""
    bad = []

    def h(ex):
        a, c = sym_str(ex, 'a', N), sym_str(ex, 'c', max(1, N - 2))
        ex.assume(valid_oracle(a))
        # a legal component: non-empty, no '/', no NUL, not "." or ".."
        ex.assume(c.n >= 1)
        for i in range(len(c.chars)):
            ex.assume(z3.Implies(i < c.n, z3.And(c.chars[i] != SL, c.chars[i] != 0)))
        ex.assume(z3.Not(z3.And(c.n == 1, at(c, 0) == DOT)))
        ex.assume(z3.Not(z3.And(c.n == 2, at(c, 0) == DOT, at(c, 1) == DOT)))
        r = ex.call('::append', [Ref([apath_val(a)], 0), c])
        return a, c, r

    def on_path(ex, out):
        if out[0] != 'ok':
            if out[0] == 'panic':
                bad.append(str(out[1]))
                rep.violation('append:panic', 'Apath::append panics: %s' % out[1], '', False)
            return
        a, c, r = out[1]
        s = as_symstr(r.fields[0])
        want = str_concat(str_concat(a, SymStr.lit('/')), c)
        prop = z3.And(valid_oracle(s), z3.Or(z3.And(a.n == 1, str_eq(s, str_concat(a, c))),
                                                z3.And(a.n > 1, str_eq(s, want))))
        ok, m = ex.check_holds(prop)
        if not ok:
            ca, cc = show(m, a), show(m, c)
            res, path = native_apath([{'op': 'append', 'a': ca, 'b': cc}], 'C11_append')
            got = show(m, s)
            reproduced = res is not None and res[0] == got
            what = 'Apath(%r).append(%r) = %r is not the child path' % (txt(ca), txt(cc), txt(got))
            rep.violation('append:wrong-child', what, path, reproduced)
            bad.append(what)
    E = run_explorer(prog, h, on_path, deadline)
    finish_obligation(rep, 'append(parent, name) is the valid child path (N<=%d)' % N, E, bad)


def ob_restore_join(rep, prog, N, deadline):
    """C16(a): for every valid apath, apath[1..] is a relative path without '..' or empty components, so
    destination.join(&apath[1..]) stays below the destination."""
    bad = []

    def h(ex):
        s = sym_str(ex, 's', N)
        v = ex.call('::is_valid', [s])
        ex.assume(zbool(v))
        return s

    def on_path(ex, out):
        if out[0] != 'ok':
            return
        s = out[1]
        L = len(s.chars)
        rel_abs = z3.And(s.n > 1, at(s, 1) == SL)        # apath[1..] would be absolute -> join() replaces the base
        dotdot = []
        for i in range(1, L):
            end2 = z3.Or(i + 2 == s.n, z3.And(i + 2 < s.n, at(s, i + 2) == SL))
            dotdot.append(z3.And(i + 1 < s.n, at(s, i - 1) == SL, at(s, i) == DOT, at(s, i + 1) == DOT, end2))
        nul = [z3.And(i < s.n, at(s, i) == 0) for i in range(L)]
        escapes = z3.Or([rel_abs] + dotdot + nul)
        ok, m = ex.check_holds(z3.Not(escapes))
        if not ok:
            cps = show(m, s)
            res, path = native_apath([{'op': 'is_valid', 'a': cps}], 'C16_is_valid')
            reproduced = res is not None and res[0] is True
            what = 'Apath::is_valid accepts %r whose tail escapes the restore destination' % txt(cps)
            rep.violation('is_valid:accepts-escaping-path', what, path, reproduced)
            bad.append(what)
    E = run_explorer(prog, h, on_path, deadline)
    finish_obligation(rep, 'is_valid(p) => p[1..] relative, no "..", no NUL (N<=%d)' % N, E, bad)


# -------------------------------------------------------------------------------------------- differential validation
ALPHABET = ['/', '/', '.', 'a', 'b', ' ', '-', '\0', 'é', '\U0001F600', '\x7f', 'z', '0']


def rand_path(rng, maxlen):
    n = rng.randint(0, maxlen)
    return ''.join(rng.choice(ALPHABET) for _ in range(n))


def rand_valid(rng, maxcomp=3):
    comps = []
    for _ in range(rng.randint(0, maxcomp)):
        while True:
            c = ''.join(rng.choice(['a', 'b', '.', ' ', '-', 'é', '\U0001F600', 'z']) for _ in range(rng.randint(1, 3)))
            if c not in ('.', '..'):
                break
        comps.append(c)
    return '/' + '/'.join(comps)


REPO_TEST_PATHS = ["/", "/...a", "/.a", "/a", "/b", "/kleine Katze Fuß", "/~~", "/ñ", "/a/...", "/a/..obscure",
                   "/a/.config", "/a/1", "/a/100", "/a/2", "/a/añejo", "/a/b/c", "/b/((", "/b/,", "/b/A", "/b/AAAA",
                   "/b/a", "/b/b", "/b/c", "/b/a/c", "/b/b/c", "/b/b/b/z", "/b/b/b/{zz}"]


def differential(rep, prog, seed, count=120):
    """Concrete inputs (the repository's own ordered test list + seeded random ones) through the real crate and
    through mirsym in concrete mode; any disagreement means the encoder is wrong."""
    rng = random.Random(seed)
    items = []
    for i in range(len(REPO_TEST_PATHS) - 1):
        items.append({'op': 'cmp', 'a': REPO_TEST_PATHS[i], 'b': REPO_TEST_PATHS[i + 1]})
        items.append({'op': 'is_prefix_of', 'a': REPO_TEST_PATHS[i], 'b': REPO_TEST_PATHS[i + 1]})
    for p in REPO_TEST_PATHS[:8]:
        items.append({'op': 'is_valid', 'a': p, 'b': ''})
    for _ in range(count):
        items.append({'op': 'is_valid', 'a': rand_path(rng, 6), 'b': ''})
        a, b = rand_valid(rng), rand_valid(rng)
        if rng.random() < 0.4:
            b = a + ('' if a == '/' else '/') + 'x' if rng.random() < 0.5 else a + rng.choice(['b', 'é', '/q'])
            if not b.startswith('/') or '//' in b:
                b = rand_valid(rng)
        items.append({'op': 'cmp', 'a': a, 'b': b})
        items.append({'op': 'is_prefix_of', 'a': a, 'b': b})
    enc = [{'op': it['op'], 'a': [ord(c) for c in it['a']], 'b': [ord(c) for c in it['b']]} for it in items]
    native, path = native_apath(enc, rep.prop + '_differential')
    if native is None:
        rep.inconclusive.append('differential validation: native driver failed')
        return
    mismatches = []
    for it, nat in zip(items, native):
        got = []

        def h(ex, it=it):
            if it['op'] == 'is_valid':
                return ex.call('::is_valid', [it['a']])
            A, B = apath_val(it['a']), apath_val(it['b'])
            if it['op'] == 'cmp':
                return ex.call(_CMP[0], [Ref([A], 0), Ref([B], 0)]).variant
            return ex.call('::is_prefix_of', [Ref([A], 0), Ref([B], 0)])

        def on_path(ex, out):
            got.append(out)
        E = Explorer(prog, Stats())
        E.run_all(h, on_path)
        if len(got) != 1 or got[0][0] != 'ok':
            if len(got) == 1 and got[0][0] == 'panic' and isinstance(nat, dict) and nat.get('panic'):
                continue
            mismatches.append((it, nat, [g[0] for g in got]))
            continue
        v = got[0][1]
        if isinstance(v, bool):
            if v != nat:
                mismatches.append((it, nat, v))
        elif v != nat:
            mismatches.append((it, nat, v))
    rep.diff_vectors += len(items)
    rep.extra['differential_vectors'] = rep.diff_vectors
    if mismatches:
        rep.inconclusive.append('encoder disagrees with the real crate on %d concrete vectors, e.g. %r'
                                % (len(mismatches), mismatches[0]))


def setup(prog):
    # the Ord impl: locate by trait, not by line number
    c = prog.fn_index.get(('Apath', 'Ord', 'cmp'))
    if not c:
        raise Unsupported('impl Ord for Apath not found')
    _CMP[0] = c[0][0]
