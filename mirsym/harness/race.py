"""C06: a garbage collection and a backup interleaved at the granularity of storage operations.

Both activities are the real functions run from MIR, each in its own Python thread; exactly one runs at a time and control
changes hands only immediately before a storage step, where the solver decides (bounded number of preemptions)."""
import threading

import z3

from ..interp import Explorer, Stats, parallel_explore
from ..values import *  # noqa
from .. import env, models as M
from ..models import deref
from ..env import mk, enum_val, variant_name, Data
from . import arch as A
from . import backup as B

threading.stack_size(512 * 1024 * 1024)


class ThreadKill(BaseException):
    pass


class Scheduler:
    def __init__(self, ex, store, actors, max_preempt):
        self.ex, self.store, self.actors, self.max_preempt = ex, store, actors, max_preempt
        self.sems = {a: threading.Semaphore(0) for a in actors}
        self.main = threading.Semaphore(0)
        self.done = set()
        self.preempts = 0
        self.exc = None
        self.kill = False
        self.trace = []
        self.results = {}

    def other(self, actor):
        for a in self.actors:
            if a != actor and a not in self.done:
                return a
        return None

    def before_step(self, actor, verb, path):
        """Called by the store before every storage step of the running actor."""
        if self.kill:
            raise ThreadKill()
        o = self.other(actor)
        if o is not None and self.preempts < self.max_preempt:
            if self.ex.branch(self.ex.fresh_bool('switch_%d' % len(self.trace)), 'preempt here?'):
                self.preempts += 1
                self.store.actor = o
                self.sems[o].release()
                self.sems[actor].acquire()
                if self.kill:
                    raise ThreadKill()
                self.store.actor = actor
        self.trace.append((actor, verb, path))

    def body(self, actor, fn):
        self.sems[actor].acquire()
        try:
            if self.kill:
                return
            self.store.actor = actor
            self.results[actor] = fn()
        except ThreadKill:
            return
        except BaseException as e:      # Panic, Infeasible, FrontierStop, Unsupported ... : handed to the main thread
            if self.exc is None:
                self.exc = e
            self.kill = True
        finally:
            self.done.add(actor)
            o = self.other(actor)
            if o is not None and not self.kill:
                self.store.actor = o
                self.sems[o].release()
            elif self.kill:
                for a in self.actors:
                    self.sems[a].release()
                self.main.release()
            else:
                self.main.release()

    def run(self, bodies, first):
        threads = [threading.Thread(target=self.body, args=(a, f), daemon=True) for a, f in bodies.items()]
        for t in threads:
            t.start()
        self.store.actor = first
        self.sems[first].release()
        self.main.acquire()
        for t in threads:
            t.join(timeout=60)
        self.store.scheduler = None
        if self.exc is not None:
            raise self.exc
        return self.results


def make_race(prog, max_preempt, break_lock=False, delete_latest=False, empty_archive=False, base=0):
    """delete_latest: the archive holds two versions and the collector deletes the newer one (the backup's basis) while the backup runs."""
    delete_bands = A.fn_by(prog, 'Archive', None, 'delete_bands')

    def mk_():
        res = {'bad': [], 'samples': []}

        def h(ex):
            st, ar = A.new_archive(ex)
            sa = ex.fresh_int('size_a', 1, 1 << 16)
            sg = ex.fresh_int('size_g', 1, 1 << 16)
            ha = A.put_block(ex, st, Data([(1, 0, sa)]))
            hg = A.put_block(ex, st, Data([(7, 0, sg)]))          # garbage: referenced by no version
            if not empty_archive:
                # (empty_archive: no version at all, only blocks left behind - the collector remembers "no band" as its baseline)
                # (base: the id of the existing version; 9999 makes the new version the first five-digit one)
                A.put_head(ex, st, base)
                A.put_hunk(ex, st, base, 0, [A.mk_entry(ex, '/', 'Dir', 1, mode=0o755),
                                              A.mk_entry(ex, '/a', 'File', 10, addrs=[A.mk_addr(ex, ha, 0, sa)], mode=0o644)])
                A.put_tail(ex, st, base, 1)
            files = [B.SrcFile('/', 'Dir', mtime=B.TimeV(1, 0), mode=0o755),
                     B.SrcFile('/a', 'File', cls=1, size=sa, mtime=B.TimeV(10, 0), mode=0o644)]
            ids = VecV([])
            if delete_latest:
                sc_ = ex.fresh_int('size_c', 1, 1 << 16)
                hc = A.put_block(ex, st, Data([(3, 0, sc_)]))
                A.put_head(ex, st, 1)
                A.put_hunk(ex, st, 1, 0, [A.mk_entry(ex, '/', 'Dir', 1, mode=0o755),
                                           A.mk_entry(ex, '/a', 'File', 10, addrs=[A.mk_addr(ex, ha, 0, sa)], mode=0o644),
                                           A.mk_entry(ex, '/c', 'File', 12, addrs=[A.mk_addr(ex, hc, 0, sc_)], mode=0o644)])
                A.put_tail(ex, st, 1, 1)
                files.append(B.SrcFile('/c', 'File', cls=3, size=sc_, mtime=B.TimeV(12, 0), mode=0o644))
                ids = VecV([Agg('bandid::BandId', None, [1])])
            st.mode = 'run'
            files.append(B.SrcFile('/g', 'File', cls=7, size=sg, mtime=B.TimeV(11, 0), mode=0o644))
            tree = B.SourceTreeV(files)
            B.install_time(ex)
            B.install_source(ex, tree)
            opts = B.backup_options(ex, 1000, 1 << 20, 0, True)
            dopts = mk(ex, 'archive::DeleteOptions', dry_run=False, break_lock=break_lock)
            sched = Scheduler(ex, st, ['backup', 'gc'], max_preempt)
            st.scheduler = sched
            backup_fn = ex.find_fn('backup::backup')

            def run_b():
                r = A.run_async(ex, backup_fn, [Ref([ar], 0), 'SRC', Ref([opts], 0), A.monitor_arc(ex)])
                return 'Ok' if r.variant == 0 else 'Err:' + variant_name(ex, r.fields[0])

            def run_g():
                r = A.run_async(ex, delete_bands, [Ref([ar], 0), M.Slice(ids.items, 0, len(ids.items)), Ref([dopts], 0), A.monitor_arc(ex)])
                return 'Ok' if r.variant == 0 else 'Err:' + variant_name(ex, r.fields[0])
            first = 'backup' if ex.branch(ex.fresh_bool('backup_first'), 'who starts?') else 'gc'
            results = sched.run({'backup': run_b, 'gc': run_g}, first)
            problems = []
            lost = set()
            ex.env['lost'] = lost
            srcs = {0: None, 1: {f.path: f for f in tree.files}}
            bands, blocks = B.decode_bands(ex, st)
            for b, info in sorted(bands.items()):
                if not info['tail']:
                    continue
                for hn, ents in info['hunks'].items():
                    for e in ents or []:
                        ef = B.entry_fields(ex, e)
                        for a_ in ef['addrs']:
                            hh = env.field(ex, a_, 'blockdir::Address', 'hash')
                            if hh.name not in blocks:
                                lost.add(hh.name)
                                problems.append('complete version b%04d: %s refers to block %s which the collector removed' % (b, ef['apath'], hh))
            return problems, results, sched.trace, first

        def on_path(ex, out):
            if out[0] == 'panic':
                res['bad'].append({'kind': 'panic', 'msg': str(out[1])[:200], 'where': out[1].where})
                return
            if out[0] != 'ok':
                return
            problems, results, trace, first = out[1]
            if problems:
                key = classify(trace, ex.env.get('lost'))
                if key not in [b['key'] for b in res['bad']]:
                    res['bad'].append({'kind': 'lost-block', 'key': key, 'problems': problems[:3], 'results': results, 'first': first,
                                       'schedule': [(a, v, p) for a, v, p in trace], 'model': B.model_values(ex.E.check()[1])})
            elif len(res['samples']) < 2 and results.get('backup') == 'Ok' and results.get('gc') == 'Ok':
                res['samples'].append({'results': results, 'schedule': [(a, v) for a, v, p in trace]})
        return h, on_path, res
    return mk_


def classify(trace, lost=None):
    """Role of a losing schedule, from the order of the four events the interlock is about (the removal that counts is the
    removal of a block the broken version refers to)."""
    def idx(pred, last=False):
        hits = [i for i, t in enumerate(trace) if pred(t)]
        return (hits[-1] if last else hits[0]) if hits else None
    lock_check = idx(lambda t: t[0] == 'backup' and t[1] == 'metadata' and t[2] == 'GC_LOCK')
    lock_write = idx(lambda t: t[0] == 'gc' and t[1] == 'write' and t[2] == 'GC_LOCK')
    band_create = idx(lambda t: t[0] == 'backup' and t[1] == 'create_dir' and t[2].startswith('b') and '/' not in t[2])
    gc_remove = idx(lambda t: t[0] == 'gc' and t[1] == 'remove_file' and t[2].startswith('d/') and (not lost or t[2].rsplit('/', 1)[1] in lost))
    gc_check = idx(lambda t: t[0] == 'gc' and t[1] == 'list_dir' and t[2] == '' and (gc_remove is None or trace.index(t) < gc_remove), last=True)
    # recompute gc_check as the last root listing by gc before its first block removal
    hits = [i for i, t in enumerate(trace) if t[0] == 'gc' and t[1] == 'list_dir' and t[2] == '' and (gc_remove is None or i < gc_remove)]
    gc_check = hits[-1] if hits else None
    if None in (lock_check, lock_write, band_create, gc_remove, gc_check):
        return 'race:lost-block:unclassified'
    if lock_check < lock_write and gc_check < band_create and band_create < gc_remove:
        # the recorded window: the re-check is the last thing the collector does before it starts deleting; a re-check that is
        # followed by more reading (listing, measuring) leaves a wider window and is a different defect
        first_mutation = idx(lambda t: t[0] == 'gc' and t[1].startswith('remove'))
        between = [t for t in trace[gc_check + 1:first_mutation] if t[0] == 'gc' and not t[1].startswith('remove')] if first_mutation is not None else []
        if between:
            return 'race:lost-block:gc-rechecks-too-early-and-keeps-reading-before-it-deletes'
        return 'race:lost-block:backup-dedups-against-block-gc-then-deletes'
    if gc_check > band_create:
        return 'race:lost-block:gc-deletes-although-its-recheck-ran-after-the-band-was-created'
    if lock_check > lock_write:
        return 'race:lost-block:backup-proceeds-although-the-lock-was-held'
    if gc_remove < band_create:
        return 'race:lost-block:backup-relies-on-a-block-listing-older-than-its-band'
    return 'race:lost-block:other'


def make_race2(prog, max_preempt):
    """C07: two backups of different sources racing on one archive (which holds one complete version)."""
    def mk_():
        res = {'bad': [], 'samples': []}

        def h(ex):
            st, ar = A.new_archive(ex)
            st.flag_attempts = False      # a refused CreateNew is the expected way for the loser to fail
            s0 = ex.fresh_int('size_0', 1, 1 << 16)
            h0 = A.put_block(ex, st, Data([(1, 0, s0)]))
            A.put_head(ex, st, 0)
            A.put_hunk(ex, st, 0, 0, [A.mk_entry(ex, '/', 'Dir', 1, mode=0o755),
                                       A.mk_entry(ex, '/a', 'File', 10, addrs=[A.mk_addr(ex, h0, 0, s0)], mode=0o644)])
            A.put_tail(ex, st, 0, 1)
            st.mode = 'run'
            before = st.snapshot()
            sx, sy = ex.fresh_int('size_x', 1, 1 << 16), ex.fresh_int('size_y', 1, 1 << 16)
            ss = ex.fresh_int('size_s', 1, 1 << 16)
            # /s is new to the archive and identical in both sources: both runs want to store the same block
            t1 = B.SourceTreeV([B.SrcFile('/', 'Dir', mtime=B.TimeV(1, 0), mode=0o755),
                                B.SrcFile('/a', 'File', cls=1, size=s0, mtime=B.TimeV(10, 0), mode=0o644),
                                B.SrcFile('/s', 'File', cls=8, size=ss, mtime=B.TimeV(13, 0), mode=0o644),
                                B.SrcFile('/x', 'File', cls=5, size=sx, mtime=B.TimeV(11, 0), mode=0o644)])
            t2 = B.SourceTreeV([B.SrcFile('/', 'Dir', mtime=B.TimeV(1, 0), mode=0o755),
                                B.SrcFile('/a', 'File', cls=1, size=s0, mtime=B.TimeV(10, 0), mode=0o644),
                                B.SrcFile('/s', 'File', cls=8, size=ss, mtime=B.TimeV(13, 0), mode=0o644),
                                B.SrcFile('/y', 'File', cls=6, size=sy, mtime=B.TimeV(12, 0), mode=0o644)])
            B.install_time(ex)
            B.install_source(ex, {'SRC1': t1, 'SRC2': t2})
            opts = B.backup_options(ex, 1000, 1 << 20, 0, True)
            sched = Scheduler(ex, st, ['backup', 'backup2'], max_preempt)
            st.scheduler = sched
            backup_fn = ex.find_fn('backup::backup')

            def runner_(src):
                def f():
                    r = A.run_async(ex, backup_fn, [Ref([ar], 0), src, Ref([opts], 0), A.monitor_arc(ex)])
                    if r.variant == 0:
                        return 'Ok errors=%s' % B.stats_field(ex, r.fields[0], 'errors')
                    return 'Err:' + variant_name(ex, r.fields[0])
                return f
            first = 'backup' if ex.branch(ex.fresh_bool('first_is_1'), 'who starts?') else 'backup2'
            results = sched.run({'backup': runner_('SRC1'), 'backup2': runner_('SRC2')}, first)
            problems = []
            for p, (k, pl) in before.items():
                n = st.nodes.get(p)
                if n is None:
                    problems.append('%s existed before and is gone' % p)
                elif n.kind == 'file' and n.payload is not pl:
                    problems.append('%s existed before and was rewritten' % p)
            for v in st.violations:
                problems.append('step %d %s %s: %s' % v[:4])
            bands, blocks = B.decode_bands(ex, st)
            matched = {}
            # "the loser fails rather than writing into the winner's version": every file of a new version comes from one run
            for b in sorted(bands):
                who = sorted({a for p, ws in st.writers.items() if p.startswith('b%04d/' % b) for a in ws})
                if b != 0 and len(who) > 1:
                    problems.append('b%04d holds files written by both runs (%s): the loser of the race for the band wrote into the winner\'s version'
                                    % (b, ', '.join('%s:%s' % (ws[0], p) for p, ws in sorted(st.writers.items()) if p.startswith('b%04d/' % b))[:200]))
            for b, info in sorted(bands.items()):
                if b == 0 or not info.get('tail'):
                    continue
                fits = []
                listed = [B.entry_fields(ex, e)['apath'] for hn in sorted(info['hunks']) for e in (info['hunks'][hn] or [])]
                for nm, t in (('backup', t1), ('backup2', t2)):
                    pr = []
                    clean = results.get(nm) == 'Ok errors=0'
                    if clean:
                        B.check_complete_band(ex, st, b, t, pr, 'race', True)
                    else:
                        # a run that counted errors may have left out the files it reported; what it did record must be its own
                        tp = [f.path for f in t.files]
                        if any(p_ not in tp for p_ in listed) or len(set(listed)) != len(listed):
                            pr.append('b%04d lists paths that are not in the tree' % b)
                    B.check_inv(ex, st, {b: {f.path: f for f in t.files}}, pr, 'race')
                    if not [x for x in pr if ('b%04d' % b) in x]:
                        fits.append(nm)
                if not fits:
                    problems.append('complete version b%04d is neither source tree (entries of both runs, or content of the wrong one)' % b)
                for nm in fits:
                    matched.setdefault(nm, []).append(b)
            for nm in ('backup', 'backup2'):
                if results.get(nm) == 'Ok errors=0' and not matched.get(nm):
                    problems.append('%s returned Ok without errors but no complete version holds its tree' % nm)
            return problems, results, sched.trace, first

        def on_path(ex, out):
            if out[0] == 'panic':
                res['bad'].append({'kind': 'panic', 'msg': str(out[1])[:200], 'where': out[1].where})
                return
            if out[0] != 'ok':
                return
            problems, results, trace, first = out[1]
            if problems:
                key = 'race2:' + problems[0].split(' ')[0] + ':' + '-'.join(sorted(set(results.values())))[:40]
                if key not in [b.get('key') for b in res['bad']]:
                    res['bad'].append({'kind': 'two-backups', 'key': key, 'problems': problems[:3], 'results': results, 'first': first,
                                       'schedule': [(a, v, p) for a, v, p in trace], 'model': B.model_values(ex.E.check()[1])})
            elif len(res['samples']) < 2 and len({a for a, v, p in trace[:12]}) == 2:
                res['samples'].append({'results': results, 'schedule': [(a, v, p[-24:]) for a, v, p in trace][:24]})
        return h, on_path, res
    return mk_
