"""C05 (+C07 delete clause): Archive::delete_bands over symbolic archives, with crash points and read faults."""
import itertools
import json

import z3

from ..interp import Explorer, Stats, parallel_explore
from ..values import *  # noqa
from ..models import deref, some, none
from .. import env
from ..env import Crash, Policy, Data, Raw, variant_name
from . import arch as A


class StepPolicy(Policy):
    """At every storage step after arming the solver may choose: nothing / the process stops before this step /
    stops inside this write leaving an empty file / this step fails with kind e.  At most one event per run."""

    def __init__(self, mode, kinds=('NotFound', 'Other', 'PermissionDenied', 'AlreadyExists'), only_reads=False, start=0):
        self.mode = mode          # 'none' | 'crash' | 'empty_crash' | 'fault'
        self.kinds = kinds
        self.only_reads = only_reads
        self.fired = None
        self.armed = False

    def on_step(self, ex, store, idx, actor, verb, path, mutating):
        if self.mode == 'none' or self.fired is not None or not self.armed:
            return None
        if self.mode == 'crash':
            if not ex.branch(z3.Not(ex.fresh_bool('crash_at_%d' % idx)), 'crash here?'):
                self.fired = (idx, verb, path, 'stop')
                return 'stop'
            return None
        if self.mode == 'empty_crash':
            if verb == 'write' and not ex.branch(z3.Not(ex.fresh_bool('emptycrash_at_%d' % idx)), 'crash inside write?'):
                self.fired = (idx, verb, path, 'empty_stop')
                return 'empty_stop'
            return None
        if self.mode == 'fault':
            if self.only_reads and mutating:
                return None
            if not ex.branch(z3.Not(ex.fresh_bool('fault_at_%d' % idx)), 'fault here?'):
                ki = ex.concretize(ex.fresh_int('kind', 0, len(self.kinds) - 1), 0, len(self.kinds) - 1, 'fault kind')
                self.fired = (idx, verb, path, self.kinds[ki])
                return ('fail', self.kinds[ki])
            return None
        return None

    def finish(self):
        """Call when the operation under test has returned (the event-free run is covered by mode 'none')."""
        return None


def build(ex, spec, policy):
    """spec: {'bands': [ {'closed': bool, 'hunks': [ [entry block-index lists] ]} ], 'nblocks': n, 'lock': bool}
    Every band's entries reference blocks from a pool; pool block j has content class j and symbolic length."""
    st, ar = A.new_archive(ex, policy)
    blocks = []
    for j in range(spec['nblocks']):
        ln = ex.fresh_int('blen%d' % j, 1, 1 << 20)
        blocks.append((A.put_block(ex, st, Data([(j + 1, 0, ln)])), ln))
        ex.env.setdefault('blens', []).append(ln)
    tag = 0
    refs = {}
    for b, band in enumerate(spec['bands']):
        if band is None:
            continue
        refs[b] = set()
        if band.get('bare'):
            # a backup killed while creating its band: the directory (and its index directory), no head, nothing in it
            st.put_dir(A.band_name(b))
            st.put_dir(A.band_name(b) + '/i')
            continue
        A.put_head(ex, st, b)
        for hn, hunk in enumerate(band['hunks']):
            ents = []
            for k, blk in enumerate(hunk):
                tag += 1
                addrs = []
                for j in blk:
                    h, ln = blocks[j]
                    # any sub-range of the block (combined blocks are shared at different offsets)
                    start = ex.fresh_int('start%d' % tag, 0, None)
                    alen = ex.fresh_int('alen%d' % tag, 1, None)
                    ex.assume(start + alen <= ln)
                    addrs.append(A.mk_addr(ex, h, start, alen))
                    refs[b].add(h.hid)
                    ex.env.setdefault('addr_syms', []).append((b, hn, k, j, start, alen))
                ents.append(A.mk_entry(ex, '/f%d_%d_%d' % (b, hn, k), 'File', tag, addrs=addrs))
            A.put_hunk(ex, st, b, hn, ents)
        if band.get('empty_last'):
            # a backup killed inside the write of its next hunk leaves a zero-length file
            hp = A.hunk_path(b, len(band['hunks']))
            st.put_dir(hp.rsplit('/', 1)[0])
            st.put_file(hp, Raw(b''))
        if band['closed']:
            A.put_tail(ex, st, b, len(band['hunks']))
    if spec.get('lock'):
        st.put_file('GC_LOCK', Raw(b'{}\n'))
    st.mode = 'run'
    return st, ar, blocks, refs


def referenced_by(ex, st, bands_present):
    """Independent scan: hash ids named by any entry of the given bands (decoded from the store by layout)."""
    bands, blks = A.read_store(ex, st)
    out = {}
    for b in bands_present:
        info = bands.get(b)
        if not info:
            continue
        s = set()
        for hn, ents in info['hunks'].items():
            if ents is None:
                continue
            for e in ents:
                addrs = env.field(ex, e, 'index::entry::IndexEntry', 'addrs')
                for a in addrs.items:
                    s.add(env.field(ex, a, 'blockdir::Address', 'hash').hid)
        out[b] = s
    return out, bands, blks


def present_block_ids(st):
    ids = set()
    for p, n in st.nodes.items():
        if p.startswith('d/') and n.kind == 'file' and p.count('/') == 2:
            name = p.rsplit('/', 1)[1]
            for pl, h in st.hashes.known:
                if h.name == name:
                    ids.add(h.hid)
    return ids


def make(prog, spec, delete, dry_run, break_lock, mode):
    delete_bands = A.fn_by(prog, 'Archive', None, 'delete_bands')

    def mk():
        res = {'bad': [], 'samples': [], 'outcomes': []}

        def h(ex):
            pol = StepPolicy(mode, only_reads=(mode == 'fault'))
            st, ar, blocks, refs = build(ex, spec, pol)
            before = st.snapshot()
            ids = VecV([Agg('bandid::BandId', None, [b]) for b in delete])
            opts = env.mk(ex, 'archive::DeleteOptions', dry_run=dry_run, break_lock=break_lock)
            pol.armed = True
            crashed = False
            r = None
            try:
                r = A.run_async(ex, delete_bands, [Ref([ar], 0), A.M.Slice(ids.items, 0, len(ids.items)), Ref([opts], 0),
                                                    A.monitor_arc(ex)])
            except Crash:
                crashed = True
            pol.finish()
            # a GarbageCollectionLock dropped on an error path spawns the lock removal; it has run by now (spawn_now)
            return st, before, refs, r, crashed, pol

        def on_path(ex, out):
            if out[0] == 'panic':
                res['bad'].append({'kind': 'panic', 'msg': str(out[1])[:300], 'where': out[1].where, 'spec': spec,
                                   'delete': delete, 'dry_run': dry_run, 'mode': mode})
                return
            if out[0] != 'ok':
                return
            st, before, refs, r, crashed, pol = out[1]
            problems = check_after(ex, spec, st, before, refs, r, crashed, delete, dry_run, break_lock, pol)
            rec = {'spec': spec, 'delete': delete, 'dry_run': dry_run, 'break_lock': break_lock, 'mode': mode,
                   'fired': pol.fired, 'result': None if r is None else ('Ok' if r.variant == 0 else 'Err:' + variant_name(ex, r.fields[0])),
                   'log': [(i, v, p) for i, a, v, p, act in st.log]}
            if problems:
                rec['problems'] = problems
                r0, m = ex.E.check()
                if m is not None:
                    ev = lambda v: m.eval(zint(v), model_completion=True).as_long()
                    rec['concrete'] = {'block_lens': [ev(x) for x in ex.env.get('blens', [])],
                                       'addrs': [[b, hn, k, j, ev(s0), ev(l0)] for (b, hn, k, j, s0, l0) in ex.env.get('addr_syms', [])]}
                res['bad'].append(rec)
            elif len(res['samples']) < 1 and rec['result'] == 'Ok' and not dry_run:
                res['samples'].append(rec)
        return h, on_path, res
    return mk


def check_after(ex, spec, st, before, refs, r, crashed, delete, dry_run, break_lock, pol):
    problems = []
    all_bands = [b for b, band in enumerate(spec['bands']) if band is not None]
    newest_incomplete = bool(all_bands) and not spec['bands'][all_bands[-1]]['closed']
    refs_now, bands_now, blks_now = referenced_by(ex, st, all_bands)
    present = present_block_ids(st)
    # (a) whatever happened: every band still present and complete has all its blocks
    for b in all_bands:
        info = bands_now.get(b)
        if info and info.get('head_present') and info['tail'] and len(info['hunks']) == len(spec['bands'][b]['hunks']):
            missing = refs[b] - present
            if missing:
                problems.append('band b%04d is still listed complete but its blocks %s were removed' % (b, sorted(missing)))
        # a band that is still listed with its tail counts as a complete version: it must still be whole
        if info and info['tail'] and (not info.get('head_present') or len(info['hunks']) != len(spec['bands'][b]['hunks'])):
            problems.append('band b%04d is still listed complete (directory and tail present) but its head or index hunks are gone' % b)
    # (b) write-once / delete-only-what-was-asked monitor
    for p in before:
        if p not in st.nodes:
            ok_removed = p == 'GC_LOCK' or any(p == A.band_name(b) or p.startswith(A.band_name(b) + '/') for b in delete)
            if p.startswith('d/') and p.count('/') == 2:
                hid = [h.hid for pl, h in st.hashes.known if h.name == p.rsplit('/', 1)[1]]
                kept = [b for b in all_bands if b not in delete]
                ok_removed = bool(hid) and not any(hid[0] in refs[b] for b in kept)
            if not ok_removed:
                problems.append('removed %s which is neither a requested band, an unreferenced block nor the lock' % p)
            if dry_run and p != 'GC_LOCK':
                problems.append('dry run removed %s' % p)
    # a lock that was there before (another collector's, or a stale one) is not this run's to remove unless break_lock was given
    if spec.get('lock') and not break_lock and 'GC_LOCK' not in st.nodes:
        problems.append('removed GC_LOCK although it was held by someone else and break_lock was not requested (neither a requested band, an unreferenced block nor the lock of this run)')
    wv = [v for v in st.violations if v[2] != 'GC_LOCK']     # the lock file is gc's own to create and remove
    if wv:
        problems.append('write-once monitor: %r' % (wv,))
    if crashed or pol.fired:
        return problems
    ok = r is not None and r.variant == 0
    if dry_run and ok:
        now = st.snapshot()
        changed = set(now) ^ set(before)
        if break_lock:
            changed.discard('GC_LOCK')      # breaking a stale lock was explicitly requested
        if changed:
            problems.append('dry run changed the set of files: %s' % sorted(changed))
    if ok and not dry_run:
        for b in delete:
            if spec['bands'][b] is not None and A.band_name(b) in st.nodes:
                problems.append('band b%04d was requested but is still there' % b)
        kept = [b for b in all_bands if b not in delete]
        needed = set()
        for b in kept:
            needed |= refs[b]
        left = present - needed
        if left:
            problems.append('unreferenced blocks remain after a successful delete: %s' % sorted(left))
        if 'GC_LOCK' in st.nodes:
            problems.append('GC_LOCK left behind after success')
    if not ok and not newest_incomplete and not (spec.get('lock') and not break_lock):
        # nothing was injected, nobody else holds the lock and no backup can be in progress: the delete has no reason to refuse
        problems.append('delete/gc of a healthy archive (whatever earlier interrupted backups left behind) fails: %s'
                        % (None if r is None else variant_name(ex, r.fields[0])))
    if ok and newest_incomplete:
        problems.append('delete/gc succeeded although the newest band is incomplete')
    if ok and spec.get('lock') and not break_lock:
        problems.append('delete/gc succeeded although GC_LOCK was held')
    return problems


def specs(tier):
    """Archive shapes (restricted-growth block assignment to avoid symmetric duplicates)."""
    out = []
    if tier == 'quick':
        combos = [
            # two closed bands, shared + private + garbage blocks
            {'nblocks': 3, 'bands': [{'closed': True, 'hunks': [[[0]], [[1]]]}, {'closed': True, 'hunks': [[[0]]]}]},
            {'nblocks': 3, 'bands': [{'closed': True, 'hunks': [[[0, 1]]]}, {'closed': True, 'hunks': [[[1]], [[2]]]}]},
            {'nblocks': 2, 'bands': [{'closed': True, 'hunks': [[[0]]]}, None, {'closed': True, 'hunks': [[[0], [1]]]}]},
            {'nblocks': 2, 'bands': [{'closed': True, 'hunks': [[[0]]]}, {'closed': False, 'hunks': [[[1]]]}]},
            # an interrupted version (two hunks, no tail) in the middle of the history: its blocks are referenced too
            {'nblocks': 4, 'bands': [{'closed': True, 'hunks': [[[0]]]}, {'closed': False, 'hunks': [[[1]], [[2]]]}, {'closed': True, 'hunks': [[[0], [3]]]}]},
            {'nblocks': 1, 'bands': []},
            # a file that grew: its first block is the one an earlier version's file consists of, the second is its own
            {'nblocks': 3, 'bands': [{'closed': True, 'hunks': [[[0]]]}, {'closed': True, 'hunks': [[[0, 1]], [[2]]]}]},
            # leftovers of killed backups in the middle of the history: a bare band directory; an unfinished band whose next hunk is zero-length
            {'nblocks': 2, 'bands': [{'closed': True, 'hunks': [[[0]]]}, {'bare': True, 'closed': False, 'hunks': []}, {'closed': True, 'hunks': [[[0]]]}]},
            {'nblocks': 3, 'bands': [{'closed': True, 'hunks': [[[0]]]}, {'closed': False, 'hunks': [[[1]]], 'empty_last': True}, {'closed': True, 'hunks': [[[0]]]}]},
        ]
    else:
        combos = [
            {'nblocks': 3, 'bands': [{'closed': True, 'hunks': [[[0]], [[1]]]}, {'closed': True, 'hunks': [[[0]]]}]},
            {'nblocks': 3, 'bands': [{'closed': True, 'hunks': [[[0, 1]]]}, {'closed': True, 'hunks': [[[1]], [[2]]]}]},
            {'nblocks': 2, 'bands': [{'closed': True, 'hunks': [[[0]]]}, None, {'closed': True, 'hunks': [[[0], [1]]]}]},
            {'nblocks': 2, 'bands': [{'closed': True, 'hunks': [[[0]]]}, {'closed': False, 'hunks': [[[1]]]}]},
            {'nblocks': 4, 'bands': [{'closed': True, 'hunks': [[[0], [1]]]}, {'closed': True, 'hunks': [[[1]], [[2]]]},
                                    {'closed': True, 'hunks': [[[2, 0]]]}]},
            {'nblocks': 3, 'bands': [{'closed': False, 'hunks': [[[0]]]}, {'closed': True, 'hunks': [[[0]], [[1]]]}]},
            {'nblocks': 1, 'bands': []},
            # four versions sharing blocks pairwise, a gap in the band numbers, an interrupted band in the middle of the history
            {'nblocks': 5, 'bands': [{'closed': True, 'hunks': [[[0], [1]]]}, {'closed': True, 'hunks': [[[1], [2]]]}, None,
                                    {'closed': True, 'hunks': [[[2]], [[3]]]}, {'closed': True, 'hunks': [[[3, 0]]]}]},
            {'nblocks': 4, 'bands': [{'closed': True, 'hunks': [[[0]]]}, {'closed': False, 'hunks': [[[1]], [[2]]]}, {'closed': True, 'hunks': [[[0], [3]]]}]},
            # one entry spread over three blocks, each shared with another version at an offset
            {'nblocks': 3, 'bands': [{'closed': True, 'hunks': [[[0, 1, 2]]]}, {'closed': True, 'hunks': [[[1]], [[2], [0]]]}]},
            {'nblocks': 3, 'bands': [{'closed': True, 'hunks': [[[0]]]}, {'closed': True, 'hunks': [[[0, 1]], [[2]]]}]},
            {'nblocks': 2, 'bands': [{'closed': True, 'hunks': [[[0]]]}, {'bare': True, 'closed': False, 'hunks': []}, {'closed': True, 'hunks': [[[0]]]}]},
            {'nblocks': 3, 'bands': [{'closed': True, 'hunks': [[[0]]]}, {'closed': False, 'hunks': [[[1]]], 'empty_last': True}, {'closed': True, 'hunks': [[[0]]]}]},
        ]
    for c in combos:
        for lock in (False, True):
            d = dict(c)
            d['lock'] = lock
            out.append(d)
    return out


def cases(tier):
    for spec in specs(tier):
        bands = [b for b, x in enumerate(spec['bands']) if x is not None]
        subsets = [[]] + [[b] for b in bands] + ([bands] if len(bands) > 1 else [])
        if tier != 'quick' and len(bands) > 2:
            # also: everything but the newest, and the two oldest
            subsets += [bands[:-1], bands[:2]]
        # the caller's list is in no particular order (the CLI passes the -b arguments as given)
        subsets += [list(reversed(x)) for x in subsets if len(x) > 1]
        for delete in subsets:
            for dry in (False, True):
                for brk in ((False, True) if spec['lock'] else (False,)):
                    modes = ['none'] if dry else ['none', 'crash', 'fault']
                    for mode in modes:
                        yield spec, delete, dry, brk, mode


_PROG = [None]


def _worker(case):
    spec, delete, dry, brk, mode = case
    prog = _PROG[0]
    h, on_path, res = make(prog, spec, delete, dry, brk, mode)()
    E = Explorer(prog, Stats(), max_paths=5000, step_budget=300000)
    try:
        E.run_all(h, on_path)
    except Exception as e:
        E.inconclusive.append('worker failure %r' % (e,))
    return res, E.stats.as_dict(), E.stats.functions, E.stats.models_used, E.inconclusive[:3]


def sweep(prog, tier, deadline, procs=16):
    import multiprocessing as mp
    import time
    _PROG[0] = prog
    cs = list(cases(tier))
    tot = {'paths': 0, 'queries': 0, 'solver_s': 0.0, 'nontrivial': 0, 'bad': [], 'inconclusive': [], 'functions': set(), 'models': set(),
           'samples': [], 'cases': len(cs), 'cases_done': 0}
    ctx = mp.get_context('fork')
    with ctx.Pool(procs) as pool:
        for res, st, fns, mods, inc in pool.imap_unordered(_worker, cs):
            tot['cases_done'] += 1
            tot['paths'] += st['paths']
            tot['nontrivial'] += st.get('nontrivial', 0)
            tot['queries'] += st['queries']
            tot['solver_s'] += st['solver_s']
            tot['bad'] += res['bad']
            if len(tot['samples']) < 2:
                tot['samples'] += res['samples']
            tot['functions'] |= fns
            tot['models'] |= mods
            tot['inconclusive'] += inc
            if deadline and time.time() > deadline:
                tot['inconclusive'].append('time budget: %d of %d cases' % (tot['cases_done'], len(cs)))
                pool.terminate()
                break
    return tot
