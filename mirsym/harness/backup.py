"""The backup-writer harness (C03, C04, C07, C13, C14, C01 content, C02 reuse).

The real `backup()` is executed from MIR.  Only the source side is modelled: the source walk yields a
harness-chosen, path-ordered list of entries, and reading a source file yields segments of its content class.
"""
import re

import z3

from ..interp import Explorer, Stats, parallel_explore
from ..values import *  # noqa
from .. import env, models as M
from ..models import deref, some, none, ok, err
from ..env import (mk, enum_val, Crash, Data, Raw, Compressed, JsonDoc, BufV, BufSlice, normalize_segs, variant_name,
                   field)
from . import arch as A
from .gc import StepPolicy



from ..env import TimeV, install_time, NANOS  # noqa (re-exported)


# ============================================================================ source side
class SrcFile:
    """One source entry of the modelled tree."""

    def __init__(self, path, kind, cls=None, size=0, target=None, mtime=None, mode=None, user=None, group=None):
        self.path, self.kind, self.cls, self.size, self.target = path, kind, cls, size, target
        self.mtime, self.mode, self.user, self.group = mtime, mode, user, group
        self.actual = None        # bytes actually readable when the file is opened (None: the size the listing reported)
        self.read_fails = False   # a read of this file may fail (solver-chosen, at most once per run)

    def readable(self):
        return self.size if self.actual is None else self.actual


class SourceTreeV(Model):
    ty = 'SourceTree'

    def __init__(self, files):
        self.files = files

    def clone_model(self):
        return self


class SourceIterV(Model):
    ty = 'SourceIter'

    def __init__(self, entries):
        self.entries = list(entries)
        self.pos = 0


class FileV(Model):
    """An open source file: reads deliver consecutive segments of its content class."""
    ty = 'File'

    def __init__(self, f, short_reads=0):
        self.f = f
        self.pos = 0
        self.short_reads = short_reads


def source_entry_value(ex, f):
    if f.kind == 'File':
        km = enum_val(ex, 'entry::KindMeta', 'File', [f.size])
    elif f.kind == 'Dir':
        km = enum_val(ex, 'entry::KindMeta', 'Dir')
    elif f.kind == 'Symlink':
        km = enum_val(ex, 'entry::KindMeta', 'Symlink', [f.target])
    else:
        km = enum_val(ex, 'entry::KindMeta', 'Unknown')
    return mk(ex, 'source::entry::Entry', apath=A.apath_of(f.path), kind_meta=km, mtime=f.mtime,
              unix_mode=A.mk_mode(f.mode), owner=A.mk_owner(ex, f.user, f.group))


def buf_overwrite(ex, buf, off, seg):
    """Write segment seg=(cls,o,len) into BufV at byte offset off (must lie inside the buffer)."""
    c, o, ln = seg
    end = off + ln
    if not ex.branch(b_not(b_lt(buf.length(), end)), 'write fits'):
        raise Panic('write past the end of the buffer')
    lefts, rights, pos = [], [], 0
    for (sc, so, sl) in buf.segs:
        send = pos + sl
        if ex.branch(b_lt(pos, off), 'ow left part'):
            keep_end = env.ite_min(send, off)
            lefts.append((sc, so, keep_end - pos))
        if ex.branch(b_lt(end, send), 'ow right part'):
            keep_start = env.ite_max(pos, end)
            rights.append((sc, 0 if sc == 'zero' else so + (keep_start - pos), send - keep_start))
        pos = send
    buf.segs = normalize_segs(lefts + [(c, o, ln)] + rights)


def install_source(ex, tree, short_reads=0):
    I = ex.intercepts

    def add(p, f):
        I.insert(0, (re.compile('(?:' + p + r')$'), f))
    def tree_of(v):
        # several source trees (two racing backups): `tree` is a dict keyed by the source path handed to backup()
        if isinstance(tree, dict):
            v = deref(v)
            if isinstance(v, SourceTreeV):
                return v
            key = str_simplify(M.path_str(v)) if not isinstance(v, str) else v
            return tree[key]
        return tree
    add(r'(?:source::)?SourceTree::open::<.*>', lambda ex, c, a: ok(tree_of(a[0])))
    add(r'(?:source::)?SourceTree::iter_entries',
        lambda ex, c, a: ok(SourceIterV([source_entry_value(ex, f) for f in tree_of(a[0]).files])))
    add(r'<(?:source::)?SourceTree as Clone>::clone', lambda ex, c, a: deref(a[0]))

    def it_next(ex, c, a):
        it = deref(a[0])
        if not isinstance(it, SourceIterV):
            return NotImplemented
        if it.pos >= len(it.entries):
            return none()
        it.pos += 1
        return some(it.entries[it.pos - 1])
    add(r'<(?:source::)?Iter as Iterator>::next', it_next)

    def open_file(ex, c, a):
        ap = deref(a[1])
        p = str_simplify(deref(ap).fields[0])
        for f in tree_of(a[0]).files:
            if f.path == p or (isinstance(f.path, SymStr) and f.path is deref(ap).fields[0]):
                return ok(FileV(f, short_reads))
        raise Unsupported('open_file of unknown path %r' % (p,))
    add(r'(?:source::)?SourceTree::open_file', open_file)

    def read(ex, c, a):
        f = deref(a[0])
        if not isinstance(f, FileV):
            return NotImplemented
        dst = a[1]
        if not isinstance(dst, BufSlice):
            raise Unsupported('read into %r' % (dst,))
        room = dst.byte_len()
        if f.f.read_fails and not ex.env.get('read_failed') and ex.branch(ex.fresh_bool('read_error'), 'source read fails?'):
            ex.env['read_failed'] = f.f.path
            from .restoreh import IoErrorV
            return err(IoErrorV('Other'))
        remaining = f.f.readable() - f.pos
        n = env.ite_min(room, remaining)
        if f.short_reads > 0 and ex.branch(b_lt(1, n), 'short read possible'):
            if ex.branch(ex.fresh_bool('short'), 'short read?'):
                f.short_reads -= 1
                k = ex.fresh_int('shortlen', 1, None)
                ex.assume(k < n)
                n = k
        if ex.branch(b_lt(0, n), 'read some'):
            buf_overwrite(ex, dst.buf, dst.start, (f.f.cls, f.pos, n))
            f.pos = f.pos + n
            return ok(n)
        return ok(0)
    add(r'<(?:std::fs::)?File as (?:std::io::)?Read>::read|<dyn (?:std::io::)?Read as (?:std::io::)?Read>::read|<&mut dyn (?:std::io::)?Read as (?:std::io::)?Read>::read', read)
    add(r'<(?:std::fs::)?File as Drop>::drop', lambda ex, c, a: UNIT)

    def int_add_assign(ex, c, a):
        r = a[0]
        m = re.match(r'<(\w+) as', c)
        r.set(wrap(r.get() + a[1], m.group(1)))
        return UNIT
    add(r'<(?:usize|u64|u32|i64) as AddAssign>::add_assign', int_add_assign)
    add(r'<(?:std::time::)?Duration as AddAssign>::add_assign', lambda ex, c, a: UNIT)
    add(r'<(?:std::time::)?Duration as Clone>::clone', lambda ex, c, a: Opaque('Duration'))
    add(r'<&(?:mut )?(?:std::fs::)?File as .*>::.*', lambda ex, c, a: NotImplemented)


# ============================================================================ running a backup
def backup_options(ex, max_entries_per_hunk, max_block_size, small_file_cap, owner=True):
    return mk(ex, 'backup::BackupOptions', exclude=A.ExcludeV(), max_entries_per_hunk=max_entries_per_hunk,
              change_callback=none(), max_block_size=max_block_size, small_file_cap=small_file_cap, owner=owner)


def run_backup(ex, ar, tree, opts, short_reads=0):
    """-> ('ok', BackupStats) | ('err', error) ; raises Crash."""
    install_time(ex)
    install_source(ex, tree, short_reads)
    f = A.fn_by(ex.prog, None, None, 'backup') if False else ex.find_fn('backup::backup')
    r = A.run_async(ex, f, [Ref([ar], 0), 'SRC', Ref([opts], 0), A.monitor_arc(ex)])
    if r.variant == 0:
        return 'ok', r.fields[0]
    return 'err', r.fields[0]


# ============================================================================ independent checks on the store
def decode_bands(ex, st):
    bands, blocks = A.read_store(ex, st)
    return bands, blocks


def block_payload(st, blocks, name):
    ent = blocks.get(name)
    if ent is None:
        return None
    sub, pl = ent
    if isinstance(pl, Compressed):
        return pl.inner
    return pl


def entry_fields(ex, e):
    g = lambda n: field(ex, e, 'index::entry::IndexEntry', n)
    return {'apath': str_simplify(g('apath').fields[0]), 'kind': variant_name(ex, g('kind')), 'mtime': g('mtime'),
            'nanos': g('mtime_nanos'), 'mode': g('unix_mode').fields[0], 'owner': g('owner'),
            'addrs': g('addrs').items, 'target': g('target')}


def check_entry_content(ex, st, blocks, e, src, problems, where):
    """Every address inside its (present, non-empty) block, and the addressed bytes are exactly the file's bytes."""
    ef = entry_fields(ex, e)
    segs = []
    total = 0
    for a in ef['addrs']:
        h = field(ex, a, 'blockdir::Address', 'hash')
        start = field(ex, a, 'blockdir::Address', 'start')
        ln = field(ex, a, 'blockdir::Address', 'len')
        pl = block_payload(st, blocks, h.name)
        if pl is None:
            problems.append('%s: entry %s refers to block %s which is missing' % (where, ef['apath'], h))
            return
        if isinstance(pl, Raw) and len(pl.data) == 0:
            problems.append('%s: entry %s refers to block %s which is an empty file' % (where, ef['apath'], h))
            return
        if not isinstance(pl, Data):
            problems.append('%s: block %s holds %r' % (where, h, pl))
            return
        okr, m = ex.check_holds(b_and(b_not(b_lt(start, 0)), b_not(b_lt(pl.length(ex), start + ln))))
        if not okr:
            problems.append('%s: entry %s address (%s,+%s) runs past the end of block %s' % (where, ef['apath'], start, ln, h))
            return
        part = pl.slice(ex, start, start + ln)
        segs += part.segs
        total = total + ln
    if src is None:
        return
    got = Data(segs).canon(ex)
    if not got.segs:
        if src.kind == 'File' and not ex.check_holds(eq(src.readable(), 0))[0]:
            problems.append('%s: entry %s has no content, the file held %s bytes' % (where, ef['apath'], src.readable()))
        return
    want = Data([(src.cls, 0, src.readable())]) if src.kind == 'File' else Data([])
    same = got.same(ex, want)
    if same is False:
        problems.append('%s: entry %s restores to %r, the file held %r' % (where, ef['apath'], got.segs, want.segs))
        return
    if same is not True:
        okr, m = ex.check_holds(same)
        if not okr:
            problems.append('%s: entry %s restores to %r, the file held %r' % (where, ef['apath'], got.segs, want.segs))


def check_inv(ex, st, srcs_by_band, problems, where, require_format=True):
    """Inv': every hunk present names only present, long-enough blocks with the right bytes; tail => all hunks; format rules."""
    bands, blocks = decode_bands(ex, st)
    for b, info in sorted(bands.items()):
        hunks = info['hunks']
        if hunks and not info.get('head_present'):
            problems.append('%s: band b%04d has index hunks but no BANDHEAD' % (where, b))
        nums = sorted(hunks)
        if require_format and nums != list(range(len(nums))):
            problems.append('%s: band b%04d hunk numbers %s are not 0..n-1' % (where, b, nums))
        if info['tail'] and not info.get('tail_empty'):
            tc = info['tail_count']
            if tc is None or (isinstance(tc, int) and tc != len(nums)) or (not isinstance(tc, int) and ex.check_holds(eq(tc, len(nums)))[0] is False):
                problems.append('%s: band b%04d tail says %s hunks, %d present' % (where, b, tc, len(nums)))
        prev = None
        srcs = srcs_by_band.get(b)
        for n in nums:
            ents = hunks[n]
            if ents is None:
                # the zero-length leftover of a killed write is a legal state for the last hunk of an unfinished band
                if n in info.get('empty_hunks', ()) and n == nums[-1] and not info['tail']:
                    continue
                problems.append('%s: band b%04d hunk %d is not decodable' % (where, b, n))
                continue
            if require_format and len(ents) == 0:
                problems.append('%s: band b%04d hunk %d is empty' % (where, b, n))
            for e in ents:
                ef = entry_fields(ex, e)
                p = ef['apath']
                if isinstance(p, str):
                    if prev is not None and isinstance(prev, str) and not apath_lt(prev, p):
                        problems.append('%s: band b%04d entries not strictly increasing: %r then %r' % (where, b, prev, p))
                    prev = p
                src = None
                if srcs is not None:
                    src = srcs.get(p)
                    if src is None:
                        problems.append('%s: band b%04d lists %r which is not in the source' % (where, b, p))
                        continue
                    if src.kind != ef['kind']:
                        problems.append('%s: %r recorded as %s, source has %s' % (where, p, ef['kind'], src.kind))
                if ef['kind'] != 'File' and ef['addrs']:
                    problems.append('%s: %s entry %r carries addresses' % (where, ef['kind'], p))
                if (ef['target'].variant == 1) != (ef['kind'] == 'Symlink'):
                    problems.append('%s: entry %r kind %s target presence wrong' % (where, p, ef['kind']))
                if ef['kind'] == 'File':
                    check_entry_content(ex, st, blocks, e, src, problems, where + ' band b%04d' % b)
    # block placement
    for name, (sub, pl) in blocks.items():
        if name[:3] != sub:
            problems.append('%s: block %s stored under d/%s' % (where, name, sub))
        inner = pl.inner if isinstance(pl, Compressed) else None
        if inner is not None and isinstance(inner, Data):
            hv = None
            for p0, h0 in st.hashes.known:
                if h0.name == name:
                    hv = p0
            if hv is None or hv.same(ex, inner) is False:
                problems.append('%s: block file %s does not hold the content that hashes to its name' % (where, name))
    return bands, blocks


def apath_key(p):
    parts = p.split('/')[1:] if p != '/' else ['']
    return ([x.encode('utf-8') for x in parts[:-1]], parts[-1].encode('utf-8'))


def apath_lt(a, b):
    """Documented order on concrete paths (independent of the implementation)."""
    if a == b:
        return False
    da, na = apath_key(a)
    db, nb = apath_key(b)
    if da == db:
        return na < nb
    # shorter directory list that is a prefix sorts first; otherwise component-wise
    for x, y in zip(da, db):
        if x != y:
            return x < y
    return len(da) < len(db)


# ============================================================================ scenarios
PATHS = ['/a', '/b', '/c', '/d', '/e']


def make_tree(ex, kinds, classes, label='t', sizes=None, B=None, sym_meta=False, paths=None, shrink=False, read_errors=False):
    """Root dir + one entry per letter of `kinds` (F file, D dir, S symlink, U unknown); file i has content class
    classes[i]; equal classes share size and content."""
    # a different tree state (label) gets different mtimes: content never changes behind an unchanged (mtime, size)
    base = 1000 if label == 't' else 2000
    tm = (lambda l, i: sym_time(ex, l)) if sym_meta else (lambda l, i: TimeV(base + i, 500 * i))
    files = [SrcFile('/', 'Dir', mtime=tm(label + 'root', 9), mode=sym_mode(ex, label + 'rootmode'))]
    class_size = {}
    for i, k in enumerate(kinds):
        p = (paths or PATHS)[i]
        mt = tm('%smt%d' % (label, i), i)
        if k == 'F':
            c = classes[i]
            if c not in class_size:
                if sizes is not None:
                    sz = sizes[i]
                else:
                    sz = ex.fresh_int('%ssize%d' % (label, i), 0, None)
                    if B is not None:
                        ex.assume(sz <= 3 * B)
                class_size[c] = sz
            files.append(SrcFile(p, 'File', cls=c, size=class_size[c], mtime=mt, mode=sym_mode(ex, '%smode%d' % (label, i)),
                                 user='u', group=None))
            last_file = i == max(j for j, kk in enumerate(kinds) if kk == 'F')
            if shrink and last_file and i > 0:
                # the (last) file is truncated between the directory listing and the read: fewer bytes than the listing reported
                act = ex.fresh_int('%sactual%d' % (label, i), 0, None)
                ex.assume(act <= class_size[c])
                files[-1].actual = act
            files[-1].read_fails = read_errors and last_file and i > 0
        elif k == 'D':
            files.append(SrcFile(p, 'Dir', mtime=mt, mode=sym_mode(ex, '%smode%d' % (label, i))))
        elif k == 'S':
            files.append(SrcFile(p, 'Symlink', target='tgt%d' % i, mtime=mt))
        else:
            files.append(SrcFile(p, 'Unknown', mtime=mt))
    return SourceTreeV(files)


def sym_time(ex, label):
    s = ex.fresh_int(label + '_s', -30000000000, 30000000000)
    n = ex.fresh_int(label + '_n', 0, NANOS - 1)
    return TimeV(s, n)


def sym_mode(ex, label):
    return ex.fresh_int(label, 0, 0o7777)


def sym_options(ex, label='o'):
    # ranges reach past the defaults (20 MiB blocks, 1 MiB small-file cap) so that size-dependent special cases are inside
    B = ex.fresh_int(label + 'B', 1, 1 << 25)
    C = ex.fresh_int(label + 'C', 0, 1 << 26)
    H = ex.fresh_int(label + 'H', 1, 4)
    return B, C, H


def expected_entries(tree, with_owner=True):
    out = []
    for f in tree.files:
        if f.kind == 'Unknown':
            continue
        out.append(f)
    return out


def check_complete_band(ex, st, b, tree, problems, where, with_owner=True):
    """The band lists exactly the source's entries, in order, with the source's metadata (C01 metadata, C13, C04 clause)."""
    bands, blocks = decode_bands(ex, st)
    info = bands.get(b)
    if info is None or not info.get('head_present'):
        problems.append('%s: band b%04d missing' % (where, b))
        return
    if not info['tail']:
        problems.append('%s: backup reported success but band b%04d has no BANDTAIL' % (where, b))
    ents = []
    for n in sorted(info['hunks']):
        ents += info['hunks'][n] or []
    want = expected_entries(tree)
    got_paths = [entry_fields(ex, e)['apath'] for e in ents]
    want_paths = [f.path for f in want]
    if got_paths != want_paths:
        problems.append('%s: band b%04d lists %s, the source has %s' % (where, b, got_paths, want_paths))
        return
    for e, f in zip(ents, want):
        ef = entry_fields(ex, e)
        conds = [eq(ef['mtime'], f.mtime.sec), eq(ef['nanos'], f.mtime.nanos)]
        okr, m = ex.check_holds(b_and(*conds))
        if not okr:
            problems.append('%s: %s mtime recorded as (%s,%s), source (%s,%s)' % (where, f.path, ef['mtime'], ef['nanos'], f.mtime.sec, f.mtime.nanos))
        if f.mode is not None:
            if ef['mode'].variant != 1 or not ex.check_holds(eq(ef['mode'].fields[0], f.mode))[0]:
                problems.append('%s: %s mode recorded as %r, source %s' % (where, f.path, ef['mode'], f.mode))
        user = field(ex, ef['owner'], 'owner::Owner', 'user')
        if with_owner and f.user is not None:
            if user.variant != 1 or user.fields[0] != f.user:
                problems.append('%s: %s owner recorded as %r, source %s' % (where, f.path, user, f.user))
        if not with_owner and user.variant != 0:
            problems.append('%s: %s owner recorded although owner=false' % (where, f.path))
        if f.kind == 'Symlink':
            t = ef['target']
            if t.variant != 1 or t.fields[0] != f.target:
                problems.append('%s: %s symlink target %r, source %s' % (where, f.path, t, f.target))
        if f.kind == 'File':
            total = 0
            for a in ef['addrs']:
                total = total + field(ex, a, 'blockdir::Address', 'len')
            if not ex.check_holds(eq(total, f.readable()))[0]:
                problems.append('%s: %s address lengths sum to %s, size is %s' % (where, f.path, total, f.readable()))
            okz, _m = ex.check_holds(b_not(eq(f.readable(), 0)))
            if not okz and ef['addrs'] and ex.check_holds(eq(f.readable(), 0))[0]:
                problems.append('%s: empty file %s carries addresses' % (where, f.path))


def stats_field(ex, stats, name):
    return field(ex, stats, 'backup::BackupStats', name)


def make_case(prog, case):
    """case: dict(kinds, classes, mode, prior, owner, short_reads)"""
    kinds, classes, mode = case['kinds'], case['classes'], case['mode']

    def mk_():
        res = {'bad': [], 'samples': [], 'outcomes': 0}

        def h(ex):
            pol = StepPolicy(mode)
            st, ar = A.new_archive(ex, pol)
            ex.env['policy'], ex.env['store'] = pol, st
            st.mode = 'run'
            B, C, H = case['fixed_opts'] if case.get('fixed_opts') else sym_options(ex)
            tree = make_tree(ex, kinds, classes, B=B, sym_meta=case.get('sym_meta', False), paths=case.get('paths'),
                             sizes=case.get('sizes'), shrink=case.get('shrink', False), read_errors=case.get('read_errors', False))
            srcs = {0: {f.path: f for f in tree.files}}
            new_band = 0
            if case.get('prior') == 'built':
                # an earlier complete version written directly in the documented format (one block per file)
                t0 = make_tree(ex, case['prior_kinds'], case['prior_classes'], 'p', B=B)
                st.mode = 'pre'
                A.put_head(ex, st, 0)
                ents = []
                for i, f in enumerate(t0.files):
                    addrs = []
                    if f.kind == 'File':
                        ex.assume(f.size >= 1)
                        hsh = A.put_block(ex, st, Data([(f.cls, 0, f.size)]))
                        addrs = [A.mk_addr(ex, hsh, 0, f.size)]
                    ents.append(A.mk_entry(ex, f.path, f.kind, f.mtime.sec, addrs=addrs, target=f.target, nanos=f.mtime.nanos,
                                           mode=f.mode, owner=A.mk_owner(ex, f.user, f.group)))
                A.put_hunk(ex, st, 0, 0, ents)
                A.put_tail(ex, st, 0, 1)
                new_band = 1
                if case.get('headless_above'):
                    # an earlier backup was killed between creating its band directory and writing the head
                    st.put_dir(A.band_name(1))
                    new_band = 2
                st.mode = 'run'
                srcs = {0: {f.path: f for f in t0.files}, new_band: {f.path: f for f in tree.files}}
            elif case.get('prior'):
                # a fault-free earlier backup of a (possibly different) tree gives history and a basis
                t0 = tree if case['prior'] == 'same' else make_tree(ex, case['prior_kinds'], case['prior_classes'], 'p', B=B)
                o0 = backup_options(ex, H, B, C, case.get('owner', True))
                r0 = run_backup(ex, ar, t0, o0)
                if r0[0] != 'ok':
                    raise Unsupported('prior backup failed: %r' % (r0,))
                srcs = {0: {f.path: f for f in t0.files}, 1: {f.path: f for f in tree.files}}
                new_band = 1
                ex.env['monitor'].errors.clear()
            before = st.snapshot()
            nwrites_before = len(st.log)
            ex.env['first_step'] = st.log[-1][0] + 1 if st.log else 0
            opts = backup_options(ex, H, B, C, case.get('owner', True))
            pol.armed = True
            crashed, r = False, None
            try:
                r = run_backup(ex, ar, tree, opts, case.get('short_reads', 0))
            except Crash:
                crashed = True
            pol.finish()
            pol.armed = False
            d = dict(st=st, tree=tree, srcs=srcs, before=before, r=r, crashed=crashed, pol=pol, new_band=new_band,
                     opts=(B, C, H), log0=nwrites_before, log1=len(st.log), ar=ar)
            # the oracle may fork too (slicing symbolic ranges), so it runs inside the explored path
            d['problems'] = check_backup_outcome(ex, d, case)
            return d

        def on_path(ex, out):
            res['outcomes'] += 1
            if out[0] == 'panic':
                r0, m = ex.E.check()
                pol, st = ex.env.get('policy'), ex.env.get('store')
                res['bad'].append({'kind': 'panic', 'msg': str(out[1])[:300], 'where': out[1].where, 'case': case, 'first_step': ex.env.get('first_step', 0),
                                   'model': model_values(m), 'fired': pol.fired if pol else None,
                                   'log': [(i, v, p) for i, a, v, p, act in st.log] if st else []})
                return
            if out[0] != 'ok':
                return
            d = out[1]
            problems = d['problems']
            for ev in coverage_events(ex, d):
                res['cov:' + ev] = res.get('cov:' + ev, 0) + 1
            if problems:
                r0, m = ex.E.check()
                res['bad'].append({'kind': 'problem', 'problems': problems[:6], 'case': case, 'fired': d['pol'].fired, 'first_step': first_step(d),
                                   'result': None if d['r'] is None else d['r'][0], 'model': model_values(m),
                                   'log': [(i, v, p) for i, a, v, p, act in d['st'].log]})
            elif len(res['samples']) < 1 and (d['pol'].fired or mode == 'none') and not case.get('sym_meta'):
                # one clean path per case is kept with its whole storage trace: it is replayed natively and the two
                # traces are compared (conformance of the model with the implementation)
                r0, m = ex.E.check()
                res['samples'].append({'case': case, 'model': model_values(m), 'fired': d['pol'].fired, 'first_step': first_step(d),
                                       'result': 'crashed' if d['crashed'] else d['r'][0] if d['r'] else None,
                                       'log': [(i, v, p) for i, a, v, p, act in d['st'].log],
                                       'storage_trace': [(v, p) for i, a, v, p, act in d['st'].log[d['log0']:d['log1']]]})
        return h, on_path, res
    return mk_


def first_step(d):
    """Step index of the first storage operation of the run under test (operations of a prior backup come before it)."""
    log = d['st'].log
    return log[d['log0']][0] if d['log0'] < len(log) else (log[-1][0] + 1 if log else 0)


def coverage_events(ex, d):
    """Witness events of one explored path (vacuity guard): which kind of crash/fault point was exercised and which
    structural situations of the writer occurred.  Counted per check; a required event that never occurs makes the
    check inconclusive."""
    from ..backup_checks import path_role
    ev = []
    pol, st = d['pol'], d['st']
    if pol.fired:
        act = pol.fired[3]
        ev.append('%s:%s:%s' % ('fault' if act not in ('stop', 'empty_stop') else act, pol.fired[1], path_role(pol.fired[2])))
    else:
        ev.append('event-free run')
    ev.append('result:%s' % ('crashed' if d['crashed'] else d['r'][0] if d['r'] else '?'))
    try:
        bands, blocks = A.read_store(ex, st)
    except Exception:
        return ev
    info = bands.get(d['new_band'])
    if info:
        hunks = {n: es for n, es in info['hunks'].items() if es}
        if len(hunks) >= 2:
            ev.append('band with several hunks')
        users = {}
        for n, es in hunks.items():
            for e in es:
                addrs = field(ex, e, 'index::entry::IndexEntry', 'addrs').items
                if len(addrs) >= 2:
                    ev.append('file split over several blocks')
                for a in addrs:
                    h = field(ex, a, 'blockdir::Address', 'hash')
                    users.setdefault(h.name, set()).add(id(e))
        if any(len(u) >= 2 for u in users.values()):
            ev.append('block shared by several files')
        written = {p for (i, a, v, p, act) in st.log[d['log0']:] if v == 'write'}
        if any(('d/%s/%s' % (h[:3], h)) not in written for h in users):
            ev.append('entry refers to a block stored earlier')
    return sorted(set(ev))


def model_values(m):
    if m is None:
        return None
    out = {}
    for d in m.decls():
        name = d.name()
        base = name.split('!')[0]
        v = m[d]
        try:
            out[base] = v.as_long() if z3.is_int_value(v) else z3.is_true(v)
        except Exception:
            out[base] = str(v)
    return out


def check_backup_outcome(ex, d, case):
    st, tree, r, crashed, pol = d['st'], d['tree'], d['r'], d['crashed'], d['pol']
    problems = []
    where = 'after %s' % ('crash at %r' % (pol.fired,) if crashed else ('fault %r' % (pol.fired,) if pol.fired else 'a fault-free run'))
    # C07: nothing that existed before is gone or rewritten; write-once monitor
    for p, (k, pl) in d['before'].items():
        n = st.nodes.get(p)
        if n is None:
            problems.append('%s: %s existed before the backup and is gone' % (where, p))
        elif n.kind == 'file' and n.payload is not pl:
            problems.append('%s: %s existed before the backup and was rewritten' % (where, p))
    for v in st.violations:
        problems.append('%s: step %d %s %s: %s' % (where, v[0], v[1], v[2], v[3]))
    # C03/C04/C13: every hunk written names only present blocks holding the right bytes
    srcs = dict(d['srcs'])
    check_inv(ex, st, srcs, problems, where)
    nb = d['new_band']
    if case.get('validate_after') and (crashed or (r is not None and r[0] == 'ok')):
        # C09 speaks of completed and interrupted-with-header backups: a band directory without a (complete) header is out of scope
        bands_now, _b = decode_bands(ex, st)
        if all(info.get('head') for info in bands_now.values()):
            validate_healthy(ex, d, problems, where)
        return problems
    if crashed:
        if case.get('follow_up', True):
            follow_up(ex, d, case, problems, where)
        return problems
    mon = ex.env['monitor']
    if r[0] == 'ok':
        errors = stats_field(ex, r[1], 'errors')
        # with a headless band directory in the history the basis stitch reports that it cannot open it (a monitor
        # message, not a failure of the backup): the same state in follow_up is judged by stats.errors alone
        clean = (errors == 0) and (bool(case.get('headless_above')) or not mon.errors)
        if not pol.fired and not ex.env.get('read_failed') and not clean:
            problems.append('%s: backup reports errors=%s monitor_errors=%d' % (where, errors, len(mon.errors)))
        if clean:
            check_complete_band(ex, st, nb, tree, problems, where, case.get('owner', True))
        if clean and case.get('expect_no_block_writes'):
            for (i, a, v, p, act) in st.log[d['log0']:]:
                if v == 'write' and p.startswith('d/'):
                    problems.append('%s: backing up an unchanged tree wrote block %s again' % (where, p[-12:]))
            bands, blocks = decode_bands(ex, st)

            def addrs_of(b):
                out = {}
                for hn in sorted(bands[b]['hunks']):
                    for e in bands[b]['hunks'][hn] or []:
                        ef = entry_fields(ex, e)
                        out[ef['apath']] = [(field(ex, a_, 'blockdir::Address', 'hash').hid, field(ex, a_, 'blockdir::Address', 'start'),
                                             field(ex, a_, 'blockdir::Address', 'len')) for a_ in ef['addrs']]
                return out
            if nb - 1 in bands and nb in bands:
                a0, a1 = addrs_of(nb - 1), addrs_of(nb)
                for pth, l1 in a1.items():
                    l0 = a0.get(pth)
                    same = l0 is not None and len(l0) == len(l1) and all(
                        x[0] == y[0] and ex.check_holds(b_and(eq(x[1], y[1]), eq(x[2], y[2])))[0] for x, y in zip(l0, l1))
                    if not same:
                        problems.append('%s: unchanged file %s recorded with different addresses than in the previous version' % (where, pth))
        else:
            # something was skipped: it must have been reported (it was) and the band must still be closed & consistent
            pass
    else:
        if not pol.fired and not ex.env.get('read_failed'):
            problems.append('%s: backup failed without any injected fault: %s' % (where, variant_name(ex, r[1])))
    return problems


# ============================================================================ follow-up phase (C03 usability, C14 resume)
def expected_stitch(ex, st, n):
    """Stitching rule on the decoded store (concrete paths), written from the property statement."""
    bands, blocks = decode_bands(ex, st)
    out = []
    last = None
    b = n
    while True:
        info = bands.get(b)
        if info and info.get('head_present') and info['head']:
            flat = []
            for hn in sorted(info['hunks']):
                flat += [entry_fields(ex, e) for e in (info['hunks'][hn] or [])]
            for ef in flat:
                if last is None or apath_lt(last, ef['apath']):
                    out.append((b, ef['apath']))
            if flat:
                m = flat[-1]['apath']
                if last is None or apath_lt(last, m):
                    last = m
            if info['tail']:
                break
        nb = None
        for cand in range(b - 1, -1, -1):
            ci = bands.get(cand)
            if ci and ci.get('head_present'):
                nb = cand
                break
        if nb is None:
            break
        b = nb
    return out


def real_stitch(ex, ar, n, limit=60):
    new = A.fn_by(ex.prog, 'Stitch', None, 'new')
    nxt = A.fn_by(ex.prog, 'Stitch', None, 'next')
    stitch = ex.call_fn(new, [Ref([ar], 0), Agg('bandid::BandId', None, [n]), A.apath_of('/'), A.exclude_nothing(ex),
                              A.monitor_arc(ex)])
    cell = [stitch]
    got = []
    for _ in range(limit):
        r = A.run_async(ex, nxt, [Ref(cell, 0, True)])
        if r.variant == 0:
            return got
        e = r.fields[0]
        got.append(entry_fields(ex, e))
    raise Panic('listing does not terminate')


def follow_up(ex, d, case, problems, where):
    """After an interrupted or faulted backup: every version still lists per the stitching rule (no panic), and a new
    backup of the same source completes, is exact, and does not rewrite blocks that are already stored."""
    st, ar, tree = d['st'], d['ar'], d['tree']
    bands, blocks = decode_bands(ex, st)
    for b in sorted(bands):
        # a zero-length BANDHEAD (killed write) is not a version yet: "once its header exists"
        if not bands[b].get('head'):
            continue
        ex.env['monitor'].errors.clear()
        try:
            got = real_stitch(ex, ar, b)
        except Panic as p:
            problems.append('%s: listing band b%04d panics: %s' % (where, b, str(p)[:200]))
            continue
        want = expected_stitch(ex, st, b)
        gp = [g['apath'] for g in got]
        # "once its header exists the interrupted version is listed as incomplete": the version list is built from
        # Band::open + Band::get_info, which must succeed and say closed exactly for a band with a complete tail
        try:
            bo = A.run_async(ex, A.fn_by(ex.prog, 'Band', None, 'open'), [Ref([ar], 0), Agg('bandid::BandId', None, [b])])
            if bo.variant != 0:
                problems.append('%s: band b%04d cannot be opened for the version list: %s' % (where, b, variant_name(ex, bo.fields[0])))
            else:
                gi = A.run_async(ex, A.fn_by(ex.prog, 'Band', None, 'get_info'), [Ref([bo.fields[0]], 0)])
                if gi.variant != 0:
                    problems.append('%s: band b%04d cannot be described for the version list: %s' % (where, b, variant_name(ex, gi.fields[0])))
                else:
                    closed_ = field(ex, gi.fields[0], 'band::Info', 'is_closed')
                    if bool(closed_) != bool(bands[b]['tail']):
                        problems.append('%s: band b%04d is listed as %s but its tail is %s' % (
                            where, b, 'complete' if closed_ else 'incomplete',
                            'complete' if bands[b]['tail'] else 'a zero-length leftover' if bands[b].get('tail_empty') else 'absent'))
        except Panic as p:
            problems.append('%s: describing band b%04d panics: %s' % (where, b, str(p)[:200]))
        if ex.env['monitor'].errors:
            problems.append('%s: listing band b%04d reports errors: %s' % (where, b, [variant_name(ex, e) for e in ex.env['monitor'].errors][:3]))
        if gp != [p for _, p in want]:
            problems.append('%s: listing band b%04d gives %s, stitching rule gives %s' % (where, b, gp, want))
    # the default selection (newest complete version) must still resolve, whatever the kill left behind
    try:
        rsel = A.run_async(ex, A.fn_by(ex.prog, 'Archive', None, 'resolve_band_id'), [Ref([ar], 0), enum_val(ex, 'band::BandSelectionPolicy', 'LatestClosed')])
        complete = [b for b in sorted(bands) if bands[b].get('head') and bands[b].get('tail')]
        got_sel = rsel.fields[0].fields[0] if rsel.variant == 0 else 'Err:' + variant_name(ex, rsel.fields[0])
        want_sel = complete[-1] if complete else 'Err:NoCompleteBands'
        if got_sel != want_sel:
            problems.append('%s: listing band selection LatestClosed gives %s, the newest complete version is %s' % (where, got_sel, want_sel))
    except Panic as p:
        problems.append('%s: listing band selection panics: %s' % (where, str(p)[:150]))
    ex.env['monitor'].errors.clear()
    nviol = len(st.violations)
    pre = st.snapshot()
    len_log_pre = len(st.log)
    # the stitched basis of the follow-up run: every file it lists is unchanged in the source, so it must be reused
    latest = max(bands) if bands else None
    basis_files = []
    if latest is not None:
        srcp = {f.path: f for f in tree.files}
        for (bb, pth) in expected_stitch(ex, st, latest):
            if pth in srcp and srcp[pth].kind == 'File':
                info_ = bands[bb]
                for hn in info_['hunks']:
                    for e_ in info_['hunks'][hn] or []:
                        ef_ = entry_fields(ex, e_)
                        if ef_['apath'] == pth and ef_['kind'] == 'File':
                            f_ = srcp[pth]
                            tot_ = 0
                            for a_ in ef_['addrs']:
                                tot_ = tot_ + field(ex, a_, 'blockdir::Address', 'len')
                            same_ = b_and(eq(ef_['mtime'], f_.mtime.sec), eq(ef_['nanos'], f_.mtime.nanos), eq(tot_, f_.size))
                            if same_ is True or (same_ is not False and ex.check_holds(same_)[0]):
                                basis_files.append(pth)
    B, C, H = d['opts']
    opts = backup_options(ex, H, B, C, case.get('owner', True))
    try:
        r = run_backup(ex, ar, tree, opts)
    except Panic as p:
        problems.append('%s: the follow-up backup panics: %s' % (where, str(p)[:200]))
        return
    if r[0] != 'ok':
        problems.append('%s: the follow-up backup fails: %s' % (where, variant_name(ex, r[1])))
        return
    if stats_field(ex, r[1], 'errors') != 0:
        problems.append('%s: the follow-up backup counts errors' % where)
    nb = max(decode_bands(ex, st)[0])
    check_complete_band(ex, st, nb, tree, problems, where + ' follow-up')
    check_inv(ex, st, {nb: {f.path: f for f in tree.files}}, problems, where + ' follow-up')
    for v in st.violations[nviol:]:
        problems.append('%s follow-up: step %d %s %s: %s' % (where, v[0], v[1], v[2], v[3]))
    # a backup only adds files (a zero-length leftover may be completed, never removed): no removal of any kind
    for (i_, a_, v_, p_, act_) in st.log[len_log_pre:]:
        if v_ in ('remove_file', 'remove_dir_all') and p_ in pre:
            problems.append('%s follow-up: %s existed and was removed by the backup (step %d %s)' % (where, p_, i_, v_))
    for p, (k, pl) in pre.items():
        n = st.nodes.get(p)
        if n is None:
            problems.append('%s follow-up: %s existed and is gone' % (where, p))
        elif n.kind == 'file' and n.payload is not pl and not (isinstance(pl, Raw) and len(pl.data) == 0):
            problems.append('%s follow-up: %s existed and was rewritten' % (where, p))
    # work already stored is not stored again: a data block the follow-up writes must hold at least one byte range that no
    # block present before the follow-up already holds (otherwise the resumed run failed to find what was stored)
    pre_segs = []
    for p, (k, pl) in pre.items():
        if k == 'file' and p.startswith('d/') and isinstance(pl, Compressed) and isinstance(pl.inner, Data):
            pre_segs += list(pl.inner.segs)
    for p, n in st.nodes.items():
        if p.startswith('d/') and n.kind == 'file' and p not in pre and isinstance(n.payload, Compressed) and isinstance(n.payload.inner, Data):
            segs = list(n.payload.inner.segs)
            def covered(seg):
                c, o, l = seg
                for (c2, o2, l2) in pre_segs:
                    if c2 == c:
                        inside = b_and(b_not(b_lt(o, o2)), b_not(b_lt(o2 + l2, o + l)))
                        if inside is True or (inside is not False and ex.check_holds(zbool(inside))[0]):
                            return True
                return False
            if segs and all(covered(sg) for sg in segs):
                problems.append('%s follow-up: wrote block %s although every byte of it was already stored in blocks left by the earlier runs (work stored again)' % (where, p[-12:]))
    written_again = stats_field(ex, r[1], 'written_blocks')
    d['followup_written_blocks'] = written_again
    unmod = stats_field(ex, r[1], 'unmodified_files')
    if not case.get('sym_meta') and unmod != len(set(basis_files)):
        problems.append('%s follow-up: %d unchanged files are recorded in the (stitched) previous version but only %s were reused' % (
            where, len(set(basis_files)), unmod))


def validate_healthy(ex, d, problems, where):
    """C09 healthy side: validation of an archive produced by fault-free operations reports nothing."""
    vname = A.fn_by(ex.prog, 'Archive', None, 'validate')
    for quick in (False, True):
        ex.env['monitor'].errors.clear()
        vo = mk(ex, 'validate::ValidateOptions', skip_block_hashes=quick)
        try:
            r = A.run_async(ex, vname, [Ref([d['ar']], 0), Ref([vo], 0), A.monitor_arc(ex)])
        except Panic as p:
            problems.append('%s: validate panics: %s' % (where, str(p)[:150]))
            return
        errs = [variant_name(ex, e) for e in ex.env['monitor'].errors]
        if r.variant != 0 or errs:
            problems.append('%s: %s validate of a healthy archive reports %s %s' % (where, 'quick' if quick else 'full',
                                                                                 'Err' if r.variant != 0 else '', errs[:3]))


# ============================================================================ C02 kernels
def make_reuse(prog):
    """Reuse soundness: a file whose content changed (with a new mtime or size) is never recorded with the old version's
    addresses.  Basis entry and source entry have solver-chosen mtimes and sizes; content classes differ iff 'changed'."""
    def mk_():
        res = {'bad': [], 'samples': []}

        def h(ex):
            pol = StepPolicy('none')
            st, ar = A.new_archive(ex, pol)
            ex.env['policy'], ex.env['store'] = pol, st
            B_, C_, H_ = 1 << 16, 1 << 8, 1000
            bs, bn = ex.fresh_int('basis_s', -1000, 4000000000), ex.fresh_int('basis_n', 0, NANOS - 1)
            ns, nn = ex.fresh_int('new_s', -1000, 4000000000), ex.fresh_int('new_n', 0, NANOS - 1)
            bsize = ex.fresh_int('basis_size', 1, 1 << 12)
            nsize = ex.fresh_int('new_size', 1, 1 << 12)
            # permission bits may change without the content changing (chmod only): the new version must record the new ones
            bmode, nmode = ex.fresh_int('basis_mode', 0, 0o7777), ex.fresh_int('new_mode', 0, 0o7777)
            changed = ex.branch(ex.fresh_bool('content_changed'), 'content changed?')
            if changed:
                # the property's premise: a content change comes with a new mtime or a new size
                ex.assume(z3.Or(bs != ns, bn != nn, bsize != nsize))
            else:
                ex.assume(z3.And(bs == ns, bn == nn, bsize == nsize))
            st.mode = 'pre'
            A.put_head(ex, st, 0)
            hsh = A.put_block(ex, st, Data([(1, 0, bsize)]))
            ents = [A.mk_entry(ex, '/', 'Dir', 5, mode=0o755),
                    A.mk_entry(ex, '/a', 'File', bs, addrs=[A.mk_addr(ex, hsh, 0, bsize)], nanos=bn, mode=bmode, owner=A.mk_owner(ex, 'u', None))]
            A.put_hunk(ex, st, 0, 0, ents)
            A.put_tail(ex, st, 0, 1)
            st.mode = 'run'
            tree = SourceTreeV([SrcFile('/', 'Dir', mtime=TimeV(5, 0), mode=0o755),
                                SrcFile('/a', 'File', cls=2 if changed else 1, size=nsize, mtime=TimeV(ns, nn), mode=nmode, user='u')])
            r = run_backup(ex, ar, tree, backup_options(ex, H_, B_, C_, True))
            problems = []
            if r[0] != 'ok':
                problems.append('backup failed')
            else:
                check_complete_band(ex, st, 1, tree, problems, 'incremental backup')
                check_inv(ex, st, {1: {f.path: f for f in tree.files}}, problems, 'incremental backup')
                unmod = stats_field(ex, r[1], 'unmodified_files')
                if not changed and unmod != 1:
                    problems.append('an unchanged file was not reused (unmodified_files=%s)' % unmod)
            return problems, changed

        def on_path(ex, out):
            if out[0] == 'panic':
                res['bad'].append({'kind': 'panic', 'msg': str(out[1])[:200], 'where': out[1].where})
                return
            if out[0] != 'ok':
                return
            problems, changed = out[1]
            if problems:
                r0, m = ex.E.check()
                res['bad'].append({'kind': 'stale-content' if changed else 'reuse', 'problems': problems[:3], 'changed': changed,
                                   'model': model_values(m)})
            elif len(res['samples']) < 2:
                r0, m = ex.E.check()
                res['samples'].append({'changed': changed, 'model': {k: v for k, v in (model_values(m) or {}).items() if k.startswith(('basis', 'new'))}})
        return h, on_path, res
    return mk_


def make_selection(prog, ids):
    """Version selection: LatestClosed is the newest band with a tail, Latest the newest band, over band-id sets with ids
    of four and more digits, each band open or closed (solver-chosen)."""
    resolve = A.fn_by(prog, 'Archive', None, 'resolve_band_id')

    def mk_():
        res = {'bad': [], 'samples': []}

        def h(ex):
            st, ar = A.new_archive(ex)
            closed = {}
            headless = {}
            emptytail = {}
            for b in ids:
                # 0 closed, 1 open, 2 a bare directory (backup killed before it wrote the head), 3 a zero-length head (killed inside that write),
                # 4 everything written but a zero-length tail (killed inside the last write)
                state = ex.concretize(ex.fresh_int('state%d' % b, 0, 4), 0, 4, 'band state')
                closed[b] = state == 0
                if state in (2, 3):
                    headless[b] = 'no-head' if state == 2 else 'empty-head'
                    st.put_dir(A.band_name(b))
                    if state == 3:
                        st.put_dir(A.band_name(b) + '/i')
                        st.put_file(A.band_name(b) + '/BANDHEAD', Raw(b''))
                    continue
                A.put_head(ex, st, b)
                A.put_hunk(ex, st, b, 0, [A.mk_entry(ex, '/', 'Dir', 5, mode=0o755)])
                if closed[b]:
                    A.put_tail(ex, st, b, 1)
                if state == 4:
                    st.put_file(A.band_name(b) + '/BANDTAIL', Raw(b''))
                    emptytail[b] = True
                    headless[b] = 'empty-tail'      # (not headless, but reported with the other leftovers of killed writes)
            ex.env['headless'] = headless
            ex.env['emptytail'] = emptytail
            st.put_dir('unrelated-dir')
            st.mode = 'run'
            out = {}
            for pol in ('LatestClosed', 'Latest'):
                r = A.run_async(ex, resolve, [Ref([ar], 0), enum_val(ex, 'band::BandSelectionPolicy', pol)])
                out[pol] = r.fields[0].fields[0] if r.variant == 0 else 'Err:' + variant_name(ex, r.fields[0])
            want_closed = max([b for b in ids if closed[b]], default=None)
            # "Latest" names the newest band directory whether or not it has a head yet (that is what the next backup numbers from)
            want_latest = max(ids, default=None)
            problems = []
            if out['LatestClosed'] != (want_closed if want_closed is not None else 'Err:NoCompleteBands'):
                problems.append('LatestClosed selects %s, the newest complete version is %s%s' % (
                    out['LatestClosed'], want_closed, ' (bands left by a backup killed while creating its band: %s)' % headless if headless else ''))
            if out['Latest'] != (want_latest if want_latest is not None else 'Err:ArchiveEmpty'):
                problems.append('Latest selects %s, the newest version is %s' % (out['Latest'], want_latest))
            return problems, closed

        def on_path(ex, out):
            if out[0] == 'panic':
                res['bad'].append({'kind': 'panic', 'msg': str(out[1])[:200], 'where': out[1].where, 'ids': ids})
                return
            if out[0] != 'ok':
                return
            problems, closed = out[1]
            if problems:
                res['bad'].append({'kind': 'selection', 'problems': problems, 'ids': ids, 'closed': closed, 'headless': dict(ex.env.get('headless') or {})})
            elif len(res['samples']) < 1:
                res['samples'].append({'ids': ids, 'closed': closed, 'headless': dict(ex.env.get('headless') or {})})
        return h, on_path, res
    return mk_


def history_scenario(mv):
    """The bounded history as a scenario for the native replay (replay/src/historyops.rs): the model's sizes and options."""
    s1, s2, sb = max(1, mv.get('size_a1', 1)), max(1, mv.get('size_a2', 1)), max(0, mv.get('size_b', 0))
    f = lambda p, cls, size, mt, mode=0o644: {'path': p, 'kind': 'File', 'content_len': size, 'content_class': cls, 'mtime': mt, 'mode': mode}
    return {'kind': 'history',
            'options': {'max_entries_per_hunk': mv.get('oH', 1000), 'max_block_size': mv.get('oB', 1 << 20), 'small_file_cap': mv.get('oC', 1 << 20)},
            'trees': {'T1': [f('/a', 1, s1, [10, 0]), f('/c', 3, sb, [12, 0])],
                      'T2': [f('/a', 2, s2, [20, 5]), f('/b', 3, sb, [21, 0], 0o600), f('/c', 3, sb, [12, 0])],
                      'T3': [f('/a', 1, s1, [30, 0]), f('/c', 3, sb, [12, 0])]},
            'steps': [{'backup': 'T1'}, {'backup': 'T2'}, {'delete': 0}, {'backup': 'T2'}, {'backup': 'T3'}]}


def make_history(prog):
    """A bounded history: backup(T1); backup(T2 = T1 with /a rewritten and /b added); [interrupted backup of T3]; delete the first
    version; gc.  After every step every completed version still resolves to exactly its own snapshot."""
    delete_bands = A.fn_by(prog, 'Archive', None, 'delete_bands')

    def mk_():
        res = {'bad': [], 'samples': []}

        def h(ex):
            pol = StepPolicy('none')
            st, ar = A.new_archive(ex, pol)
            ex.env['policy'], ex.env['store'] = pol, st
            st.mode = 'run'
            B_, C_, H_ = sym_options(ex)
            s1 = ex.fresh_int('size_a1', 1, None)
            s2 = ex.fresh_int('size_a2', 1, None)
            sb = ex.fresh_int('size_b', 0, None)
            for s_ in (s1, s2, sb):
                ex.assume(s_ <= 2 * B_)
            root = lambda t: SrcFile('/', 'Dir', mtime=TimeV(t, 0), mode=0o755)
            T1 = SourceTreeV([root(1), SrcFile('/a', 'File', cls=1, size=s1, mtime=TimeV(10, 0), mode=0o644),
                              SrcFile('/c', 'File', cls=3, size=sb, mtime=TimeV(12, 0), mode=0o644)])
            T2 = SourceTreeV([root(2), SrcFile('/a', 'File', cls=2, size=s2, mtime=TimeV(20, 5), mode=0o644),
                              SrcFile('/b', 'File', cls=3, size=sb, mtime=TimeV(21, 0), mode=0o600),
                              SrcFile('/c', 'File', cls=3, size=sb, mtime=TimeV(12, 0), mode=0o644)])
            snaps = {}
            problems = []

            def check_all(label):
                bands, blocks = decode_bands(ex, st)
                for b, tree in snaps.items():
                    if b in bands and bands[b]['tail']:
                        check_complete_band(ex, st, b, tree, problems, label)
                check_inv(ex, st, {b: {f.path: f for f in t.files} for b, t in snaps.items()}, problems, label)
            opts = lambda: backup_options(ex, H_, B_, C_, True)
            r = run_backup(ex, ar, T1, opts())
            if r[0] != 'ok':
                raise Unsupported('history: first backup failed')
            snaps[0] = T1
            check_all('after backup 1')
            r = run_backup(ex, ar, T2, opts())
            if r[0] != 'ok':
                raise Unsupported('history: second backup failed')
            snaps[1] = T2
            check_all('after backup 2')
            ids = VecV([Agg('bandid::BandId', None, [0])])
            dopts = mk(ex, 'archive::DeleteOptions', dry_run=False, break_lock=False)
            ex.env['monitor'].errors.clear()
            r = A.run_async(ex, delete_bands, [Ref([ar], 0), M.Slice(ids.items, 0, 1), Ref([dopts], 0), A.monitor_arc(ex)])
            if r.variant != 0:
                problems.append('deleting the first version failed: %s' % variant_name(ex, r.fields[0]))
            del snaps[0]
            check_all('after deleting version 0')
            r = run_backup(ex, ar, T2, opts())
            if r[0] != 'ok':
                problems.append('third backup failed')
            else:
                snaps[2] = T2
                if stats_field(ex, r[1], 'written_blocks') != 0:
                    problems.append('a backup of the unchanged tree after the delete wrote blocks again')
            check_all('after backup 3')
            # content that was in the deleted version comes back: its blocks are gone and must be stored again
            T3 = SourceTreeV([root(3), SrcFile('/a', 'File', cls=1, size=s1, mtime=TimeV(30, 0), mode=0o644),
                              SrcFile('/c', 'File', cls=3, size=sb, mtime=TimeV(12, 0), mode=0o644)])
            r = run_backup(ex, ar, T3, opts())
            if r[0] != 'ok':
                problems.append('fourth backup failed')
            else:
                snaps[3] = T3
            check_all('after backup 4 (content of the deleted version returns)')
            return problems

        def on_path(ex, out):
            if out[0] == 'panic':
                res['bad'].append({'kind': 'panic', 'msg': str(out[1])[:200], 'where': out[1].where})
                return
            if out[0] != 'ok':
                return
            if out[1]:
                r0, m = ex.E.check()
                res['bad'].append({'kind': 'history', 'problems': out[1][:4], 'model': model_values(m), 'scenario': history_scenario(model_values(m))})
            elif len(res['samples']) < 1:
                r0, m = ex.E.check()
                res['samples'].append({'history': 'backup T1; backup T2; delete b0000; backup T2; backup T1 again', 'model': model_values(m),
                                       'scenario': history_scenario(model_values(m))})
        return h, on_path, res
    return mk_
