"""restore() over a model of the destination file system (C01 metadata order, C16 containment / refusal, C12 restore --only,
C10 containment of damage).  The real restore(), restore_file, restore_symlink, restore_dir, apply_deferrals,
UnixMode::set_permissions, Owner::set_owner wrapper, BlockDir::read_address / get_block_content run from MIR; only the system
calls are modelled, each with its documented follow / no-follow behaviour.
"""
import re

import z3

from ..interp import Explorer, Stats, parallel_explore
from ..values import *  # noqa
from .. import env, models as M
from ..models import deref, some, none, ok, err, PathV, path_str
from ..env import mk, enum_val, field, variant_name, Data, Payload, Raw
from . import arch as A
from . import backup as B


class FsNode:
    def __init__(self, kind, content=None, mode=None, owner=None, mtime=None, target=None, born='pre'):
        self.kind, self.content, self.mode, self.owner, self.mtime, self.target, self.born = kind, content or [], mode, owner, mtime, target, born

    def state(self):
        return (self.kind, tuple(self.content), self.mode, self.owner, self.mtime, self.target)


class IoErr(Exception):
    def __init__(self, kind):
        self.kind = kind


class FsModel:
    """Absolute-path file system with symlinks.  Every mutation is logged with the resolved target path."""

    def __init__(self, ex, chown_permitted=True):
        self.ex = ex
        self.nodes = {'/': FsNode('dir', mode=0o755)}
        self.log = []
        self.chown_permitted = chown_permitted

    def mkdirs(self, path):
        parts = [p for p in path.split('/') if p]
        cur = ''
        for p in parts:
            cur += '/' + p
            if cur not in self.nodes:
                self.nodes[cur] = FsNode('dir', mode=0o755)

    def put_file(self, path, content=None, mode=0o644):
        self.mkdirs(path.rsplit('/', 1)[0] or '/')
        self.nodes[path] = FsNode('file', content=list(content or []), mode=mode, owner=('pre', 'pre'), mtime=('pre', 'pre'))

    def norm(self, path):
        out = []
        for p in path.split('/'):
            if p in ('', '.'):
                continue
            out.append(p)
        return '/' + '/'.join(out)

    def resolve(self, path, follow_final, depth=0):
        """Resolve symlinks like the kernel does; returns the canonical path of the object (which may not exist)."""
        if depth > 8:
            raise IoErr('FilesystemLoop')
        if not isinstance(path, str):
            raise Unsupported('symbolic file-system path')
        if not path.startswith('/'):
            raise Unsupported('relative path handed to a system call: %r' % path)
        comps = [p for p in path.split('/') if p != '']
        cur = ''
        for i, c in enumerate(comps):
            last = i == len(comps) - 1
            if c == '.':
                continue
            if c == '..':
                cur = cur.rsplit('/', 1)[0] if cur else ''
                continue
            nxt = cur + '/' + c
            n = self.nodes.get(nxt)
            if n is not None and n.kind == 'symlink' and (not last or follow_final):
                t = n.target
                base = t if t.startswith('/') else (cur + '/' + t)
                rest = '/'.join(comps[i + 1:])
                return self.resolve(base + ('/' + rest if rest else ''), follow_final, depth + 1)
            if not last:
                if n is None:
                    raise IoErr('NotFound')
                if n.kind != 'dir':
                    raise IoErr('NotADirectory')
            cur = nxt
        return cur or '/'

    def parent_exists(self, p):
        par = p.rsplit('/', 1)[0] or '/'
        n = self.nodes.get(par)
        return n is not None and n.kind == 'dir'


def io_error(ex, kind):
    return IoErrorV(kind)


class IoErrorV(Model):
    ty = 'IoError'

    def __init__(self, kind):
        self.kind = kind

    def display(self, ex):
        return 'io error ' + self.kind


class FileHandle(Model):
    ty = 'File'

    def __init__(self, fs, path):
        self.fs, self.path = fs, path


class FileTimeV(Model):
    ty = 'FileTime'

    def __init__(self, sec, nanos):
        self.sec, self.nanos = sec, nanos

    def clone_model(self):
        return self


def install_fs(ex, fs):
    I = ex.intercepts

    def add(p, f):
        I.insert(0, (re.compile('(?:' + p + r')$'), f))

    def wrap(fn):
        def g(ex, c, a):
            try:
                return ok(fn(*a))
            except IoErr as e:
                return err(IoErrorV(e.kind))
        return g

    def P(v):
        s = str_simplify(path_str(v))
        if not isinstance(s, str):
            raise Unsupported('symbolic path in a system call')
        return s

    def create_dir(p):
        t = fs.resolve(P(p), False)
        if t in fs.nodes:
            raise IoErr('AlreadyExists')
        if not fs.parent_exists(t):
            raise IoErr('NotFound')
        fs.nodes[t] = FsNode('dir', mode=0o755, born='run')
        fs.log.append(('mkdir', t))
        return UNIT

    def create_dir_all(p):
        path = P(p)
        comps = [c for c in path.split('/') if c]
        cur = ''
        for c in comps:
            cur += '/' + c
            t = fs.resolve(cur, True)
            n = fs.nodes.get(t)
            if n is None:
                if not fs.parent_exists(t):
                    raise IoErr('NotFound')
                fs.nodes[t] = FsNode('dir', mode=0o755, born='run')
                fs.log.append(('mkdir', t))
            elif n.kind != 'dir':
                raise IoErr('AlreadyExists' if cur == path.rstrip('/') else 'NotADirectory')
        return UNIT

    def read_dir(p):
        t = fs.resolve(P(p), True)
        n = fs.nodes.get(t)
        if n is None:
            raise IoErr('NotFound')
        if n.kind != 'dir':
            raise IoErr('NotADirectory')
        pre = t.rstrip('/') + '/'
        kids = [q for q in fs.nodes if q.startswith(pre) and '/' not in q[len(pre):] and q != t]
        return M.PyIter(iter([ok(StdDirEntry(k[len(pre):])) for k in sorted(kids)]), len(kids))

    def file_create(p):
        t = fs.resolve(P(p), True)        # open(O_CREAT|O_TRUNC) follows a symlink in the final component
        n = fs.nodes.get(t)
        if n is not None and n.kind == 'dir':
            raise IoErr('IsADirectory')
        if n is None:
            if not fs.parent_exists(t):
                raise IoErr('NotFound')
            fs.nodes[t] = FsNode('file', mode=0o644, owner=('run', 'run'), mtime=('now', 'now'), born='run')
        else:
            n.content = []
            n.mtime = ('now', 'now')
        fs.log.append(('create', t))
        return FileHandle(fs, t)

    def write_all(f, data):
        f = deref(f)
        pl = deref(data)
        n = fs.nodes[f.path]
        hole = getattr(f, 'hole', 0)
        if not (isinstance(hole, int) and hole == 0):
            # bytes skipped by seek before this write read back as zeros
            n.content = list(env.normalize_segs(n.content + [('zero', 0, hole)]))
            f.hole = 0
        if isinstance(pl, Data):
            n.content = list(env.normalize_segs(n.content + pl.segs))
        elif isinstance(pl, Raw):
            if pl.data:
                n.content = n.content + [('raw', 0, len(pl.data))]
        else:
            raise Unsupported('write_all of %r' % (pl,))
        fs.log.append(('write', f.path))
        return UNIT

    def seek(f, pos):
        # only SeekFrom::Current(n) with n >= 0 past the end of what was written (a hole); the file grows only when written to
        f = deref(f)
        p_ = deref(pos)
        nm = (getattr(p_, 'vname', None) or '') + ' ' + str(getattr(p_, 'ty', ''))
        if 'Current' not in nm:
            raise Unsupported('seek %r' % (p_,))
        f.hole = getattr(f, 'hole', 0) + p_.fields[0]
        fs.log.append(('seek', f.path))
        return 0

    def set_len(f, n_):
        f = deref(f)
        node = fs.nodes[f.path]
        cur = Data(node.content).length(ex) if node.content else 0
        grow = n_ - cur
        if ex.branch(b_lt(0, grow), 'set_len grows'):
            node.content = list(env.normalize_segs(node.content + [('zero', 0, grow)]))
        f.hole = 0
        fs.log.append(('ftruncate', f.path))
        return UNIT

    def set_handle_times(f, at, mt):
        f = deref(f)
        t = deref(mt)
        if t.variant == 1:
            ft = deref(t.fields[0])
            fs.nodes[f.path].mtime = (ft.sec, ft.nanos)
        fs.log.append(('futimens', f.path))
        return UNIT

    def set_permissions(p, perm):
        t = fs.resolve(P(p), True)        # chmod follows symlinks
        n = fs.nodes.get(t)
        if n is None:
            raise IoErr('NotFound')
        n.mode = deref(perm).mode
        fs.log.append(('chmod', t))
        return UNIT

    def do_chown(follow):
        def f(p, uid, gid):
            name = 'chown' if follow else 'lchown'
            t = fs.resolve(P(p), follow)
            n = fs.nodes.get(t)
            if n is None:
                raise IoErr('NotFound')
            uid, gid = deref(uid), deref(gid)
            if uid.variant == 0 and gid.variant == 0:
                fs.log.append((name + '-noop', t))
                return UNIT
            if not fs.chown_permitted:
                fs.log.append((name + '-denied', t))
                raise IoErr('PermissionDenied')
            n.owner = (uid.fields[0] if uid.variant == 1 else n.owner and n.owner[0],
                       gid.fields[0] if gid.variant == 1 else n.owner and n.owner[1])
            if n.kind == 'file' and n.mode is not None:
                # POSIX: a successful chown clears the set-user-ID and set-group-ID bits of a regular file
                n.mode = clear_suid(n.mode)
            fs.log.append((name, t))
            return UNIT
        return f
    # uzers: names map to ids one-to-one (the id is the name itself in the model)
    add(r'<(?:owner::unix::)?USERS_CACHE as (?:std::ops::)?Deref>::deref', lambda ex, c, a: Ref([Agg('Lock', None, [Opaque('UsersCache')])], 0))
    add(r'<(?:uzers::)?UsersCache as (?:uzers::)?Users>::get_user_by_name::<.*>|(?:uzers::)?UsersCache::get_user_by_name::<.*>',
        lambda ex, c, a: some(UserV(str_simplify(deref(deref(a[1]))))))
    add(r'<(?:uzers::)?UsersCache as (?:uzers::)?Groups>::get_group_by_name::<.*>|(?:uzers::)?UsersCache::get_group_by_name::<.*>',
        lambda ex, c, a: some(UserV(str_simplify(deref(deref(a[1]))))))
    add(r'(?:uzers::)?User::uid|(?:uzers::)?Group::gid', lambda ex, c, a: deref(a[0]).name)
    add(r'(?:std::os::unix::fs::)?lchown::<.*>', wrap(do_chown(False)))
    add(r'(?:std::os::unix::fs::)?chown::<.*>', wrap(do_chown(True)))

    def symlink(target, p):
        t = fs.resolve(P(p), False)
        if t in fs.nodes:
            raise IoErr('AlreadyExists')
        if not fs.parent_exists(t):
            raise IoErr('NotFound')
        tg = str_simplify(path_str(target))
        fs.nodes[t] = FsNode('symlink', target=tg, owner=('run', 'run'), mtime=('now', 'now'), born='run')
        fs.log.append(('symlink', t))
        return UNIT

    def set_symlink_times(p, at, mt):
        t = fs.resolve(P(p), False)       # lutimes: does not follow
        n = fs.nodes.get(t)
        if n is None:
            raise IoErr('NotFound')
        ft = deref(mt)
        n.mtime = (ft.sec, ft.nanos)
        fs.log.append(('lutimes', t))
        return UNIT

    def set_file_mtime(p, mt):
        t = fs.resolve(P(p), True)        # utimes follows
        n = fs.nodes.get(t)
        if n is None:
            raise IoErr('NotFound')
        ft = deref(mt)
        n.mtime = (ft.sec, ft.nanos)
        fs.log.append(('utimes', t))
        return UNIT

    def symlink_metadata(p):
        t = fs.resolve(P(p), False)       # lstat
        n = fs.nodes.get(t)
        if n is None:
            raise IoErr('NotFound')
        return MetaV(n.kind)

    def metadata(p):
        t = fs.resolve(P(p), True)
        n = fs.nodes.get(t)
        if n is None:
            raise IoErr('NotFound')
        return MetaV(n.kind)
    add(r'(?:std::fs::)?symlink_metadata::<.*>', wrap(symlink_metadata))

    def remove_file(p):
        t = fs.resolve(P(p), False)       # unlink: removes the name, never what a symlink points to
        n = fs.nodes.get(t)
        if n is None:
            raise IoErr('NotFound')
        if n.kind == 'dir':
            raise IoErr('IsADirectory')
        del fs.nodes[t]
        fs.log.append(('unlink', t))
        return UNIT
    add(r'(?:std::fs::)?remove_file::<.*>', wrap(remove_file))

    def path_exists(ex, c, a):
        try:
            t = fs.resolve(P(a[0]), True)
        except IoErr:
            return False
        return t in fs.nodes
    add(r'(?:std::path::)?Path::exists|(?:std::path::)?Path::try_exists', path_exists)
    def path_kind(kind, follow):
        def f(ex, c, a):
            try:
                t = fs.resolve(P(a[0]), follow)
            except IoErr:
                return False
            return t in fs.nodes and fs.nodes[t].kind == kind
        return f
    add(r'(?:std::path::)?Path::is_dir', path_kind('dir', True))           # stat: follows
    add(r'(?:std::path::)?Path::is_file', path_kind('file', True))
    add(r'(?:std::path::)?Path::is_symlink', path_kind('symlink', False))  # lstat
    add(r'(?:std::fs::)?DirEntry::file_name', lambda ex, c, a: deref(a[0]).name if isinstance(deref(a[0]), StdDirEntry) else NotImplemented)
    add(r'(?:std::fs::)?metadata::<.*>', wrap(metadata))
    add(r'(?:std::fs::)?Metadata::file_type', lambda ex, c, a: deref(a[0]))
    add(r'(?:std::fs::)?(?:Metadata|FileType)::is_symlink', lambda ex, c, a: deref(a[0]).kind == 'symlink')
    add(r'(?:std::fs::)?(?:Metadata|FileType)::is_dir', lambda ex, c, a: deref(a[0]).kind == 'dir')
    add(r'(?:std::fs::)?(?:Metadata|FileType)::is_file', lambda ex, c, a: deref(a[0]).kind == 'file')
    add(r'(?:std::fs::)?create_dir::<.*>', wrap(create_dir))
    add(r'(?:std::fs::)?create_dir_all::<.*>', wrap(create_dir_all))
    add(r'(?:std::fs::)?read_dir::<.*>', wrap(read_dir))
    add(r'(?:std::fs::)?File::create::<.*>', wrap(file_create))
    add(r'<(?:std::fs::)?File as (?:std::io::)?Write>::write_all', wrap(write_all))
    add(r'<(?:std::fs::)?File as (?:std::io::)?Seek>::seek', wrap(seek))
    add(r'(?:std::fs::)?File::set_len', wrap(set_len))
    add(r'<(?:std::fs::)?File as (?:std::io::)?Write>::flush', lambda ex, c, a: ok(UNIT))
    add(r'(?:filetime::)?set_file_handle_times', wrap(set_handle_times))
    add(r'(?:std::fs::)?set_permissions::<.*>', wrap(set_permissions))
    add(r'(?:std::os::unix::fs::|unix_fs::)?symlink::<.*>', wrap(symlink))
    add(r'(?:filetime::)?set_symlink_file_times::<.*>', wrap(set_symlink_times))
    add(r'(?:filetime::)?set_file_mtime::<.*>', wrap(set_file_mtime))
    add(r'(?:filetime::)?FileTime::from_unix_time', lambda ex, c, a: FileTimeV(a[0], a[1]))
    add(r'<(?:filetime::)?FileTime as Clone>::clone', lambda ex, c, a: deref(a[0]))
    add(r'<(?:std::fs::)?Permissions as (?:std::os::unix::fs::)?PermissionsExt>::from_mode|(?:std::fs::)?Permissions::from_mode',
        lambda ex, c, a: PermV(a[0]))
    def io_kind(ex, c, a):
        e = deref(a[0])
        if not isinstance(e, IoErrorV):
            return NotImplemented
        from ..srcinfo import STD_ENUMS
        idx = STD_ENUMS.get('ErrorKind', {}).get(e.kind)
        if idx is None:
            raise Unsupported('std::io::ErrorKind::%s unknown' % e.kind)
        return Agg('std::io::ErrorKind', idx, [], e.kind)
    add(r'(?:std::io::)?Error::kind', io_kind)
    add(r'<(?:std::io::)?ErrorKind as PartialEq>::(eq|ne)',
        lambda ex, c, a: (kind_name(ex, a[0]) == kind_name(ex, a[1])) == c.endswith('eq'))
    add(r'<(?:std::io::)?Error as From<(?:std::io::)?ErrorKind>>::from', lambda ex, c, a: IoErrorV(kind_name(ex, a[0])))
    add(r'<(?:std::fs::)?ReadDir as Iterator>::next', lambda ex, c, a: deref(a[0]).next())
    add(r'(?:std::collections::)?HashMap::<(?:apath::)?Apath, (?:std::io::)?ErrorKind>::get::<.*>', lambda ex, c, a: none())


class StdDirEntry(Model):
    ty = 'DirEntry'

    def __init__(self, name):
        self.name = name


class LocalTransportV(Model):
    """Transport::local(path) over the file-system model: its operations run the real transport::local::Protocol code."""
    ty = 'Transport'

    def __init__(self, path):
        self.path = path

    def clone_model(self):
        return self


class TDirEntry(Model):
    ty = 'tokio::fs::DirEntry'

    def __init__(self, name, node):
        self.name, self.node = name, node


class TReadDir(Model):
    ty = 'tokio::fs::ReadDir'

    def __init__(self, items):
        self.items = list(items)


def install_local_transport(ex, fs):
    """Transport::local(..).list_dir(..): transport::local::Protocol::list_dir and collect_tokio_dir_entry run from MIR;
    tokio::fs::read_dir / DirEntry are served by the file-system model (lstat semantics for file_type, as readdir gives)."""
    I = ex.intercepts

    def add(p, f):
        I.insert(0, (re.compile('(?:' + p + r')$'), f))
    fut = M.ReadyFuture
    add(r'(?:transport::)?Transport::local', lambda ex, c, a: LocalTransportV(M.path_str(a[0])))

    def t_list_dir(ex, c, a):
        t = deref(a[0])
        if not isinstance(t, LocalTransportV):
            return NotImplemented
        prog = ex.prog
        name = [n for (n, tr) in prog.fn_index.get(('Protocol', 'Protocol', 'list_dir'), []) if 'local' in n]
        if len(name) != 1:
            raise Unsupported('local Protocol::list_dir not found')
        proto = mk(ex, 'transport::local::Protocol', path=M.PathV(t.path), url=Opaque('Url'), tempdir=none())
        boxed = ex.call_fn(name[0], [Ref([proto], 0), deref(a[1])])
        co = boxed
        while isinstance(co, Agg) and co.ty in ('Pin', 'Box'):
            co = co.fields[0]

        def run():
            r = ex.poll_coroutine(co)
            if r.variant != 0:
                raise Unsupported('list_dir returned Pending')
            return r.fields[0]
        return fut(run)
    add(r'(?:transport::)?Transport::list_dir', t_list_dir)

    def read_dir(ex, c, a):
        p = str_simplify(M.path_str(a[0]))
        def run():
            try:
                t = fs.resolve(p.rstrip('/') or '/', True)
            except IoErr as e:
                return err(IoErrorV(e.kind))
            n = fs.nodes.get(t)
            if n is None:
                return err(IoErrorV('NotFound'))
            if n.kind != 'dir':
                return err(IoErrorV('NotADirectory'))
            pre = t.rstrip('/') + '/'
            kids = sorted(q for q in fs.nodes if q.startswith(pre) and '/' not in q[len(pre):] and q != t)
            return ok(TReadDir([TDirEntry(q[len(pre):], fs.nodes[q]) for q in kids]))
        return fut(run)
    add(r'(?:tokio::fs::)?read_dir::<.*>', read_dir)

    def next_entry(ex, c, a):
        rd = deref(a[0])
        return fut(lambda: ok(some(rd.items.pop(0)) if rd.items else none()))
    add(r'(?:tokio::fs::)?ReadDir::next_entry', next_entry)
    add(r'(?:tokio::fs::)?DirEntry::file_name', lambda ex, c, a: deref(a[0]).name if isinstance(deref(a[0]), TDirEntry) else NotImplemented)
    add(r'(?:std::ffi::)?OsString::into_string', lambda ex, c, a: ok(deref(a[0])))
    add(r'(?:tokio::fs::)?DirEntry::file_type', lambda ex, c, a: fut(lambda: ok(MetaV(deref(a[0]).node.kind))) if isinstance(deref(a[0]), TDirEntry) else NotImplemented)
    add(r'(?:tokio::fs::)?DirEntry::metadata', lambda ex, c, a: fut(lambda: ok(MetaV(deref(a[0]).node.kind))) if isinstance(deref(a[0]), TDirEntry) else NotImplemented)
    add(r'(?:std::fs::)?FileType::is_dir', lambda ex, c, a: deref(a[0]).kind == 'dir')
    add(r'(?:std::fs::)?FileType::is_file', lambda ex, c, a: deref(a[0]).kind == 'file')
    add(r'(?:std::fs::)?FileType::is_symlink', lambda ex, c, a: deref(a[0]).kind == 'symlink')
    add(r'(?:std::fs::)?Metadata::len', lambda ex, c, a: 3 if isinstance(deref(a[0]), MetaV) else NotImplemented)
    add(r'(?:tokio::sync::)?Semaphore::acquire', lambda ex, c, a: fut(lambda: ok(Opaque('permit'))))
    add(r'(?:tokio::sync::)?SemaphorePermit::drop|<(?:tokio::sync::)?SemaphorePermit<.*> as Drop>::drop', lambda ex, c, a: UNIT)


class UserV(Model):
    ty = 'User'

    def __init__(self, name):
        self.name = name


class MetaV(Model):
    ty = 'Metadata'

    def __init__(self, kind):
        self.kind = kind


class IoKind(Model):
    ty = 'IoErrorKind'

    def __init__(self, kind):
        self.kind = kind


def kind_name(ex, v):
    v = deref(v)
    if isinstance(v, IoKind):
        return v.kind
    if isinstance(v, Agg):
        if v.vname:
            return v.vname
        if v.variant is None and v.ty:
            return v.ty.split('::')[-1]
        return str(v.variant)
    return str(v)


class PermV(Model):
    ty = 'Permissions'

    def __init__(self, mode):
        self.mode = mode


def clear_suid(mode):
    if not is_sym(mode):
        return mode & ~0o6000
    m = zint(mode)
    return m - ((m / 2048) % 2) * 2048 - ((m / 1024) % 2) * 1024


# ============================================================================ scenarios
DEST = '/sandbox/dest'
OUTSIDE = {'/sandbox/out/sentinel': 'file', '/sandbox/out': 'dir', '/sandbox/out/sub': 'dir', '/sandbox/out/sub/sentinel2': 'file', '/abs/sentinel': 'file', '/sandbox/dest2': 'dir'}


def setup_fs(ex, dest_state='absent', chown_permitted=True):
    fs = FsModel(ex, chown_permitted)
    fs.mkdirs('/sandbox')
    fs.put_file('/sandbox/out/sentinel', [('sent', 0, 8)])
    fs.put_file('/sandbox/out/sub/sentinel2', [('sent3', 0, 8)])   # a real subdirectory inside the place a hostile link points to
    fs.put_file('/abs/sentinel', [('sent2', 0, 8)])
    if dest_state != 'absent':
        fs.mkdirs(DEST)
    if dest_state == 'populated':
        fs.put_file(DEST + '/existing', [('old', 0, 3)])
        fs.put_file(DEST + '/p/f', [('precious', 0, 8)])
    if dest_state == 'only-dotfiles':
        # nothing but names that start with a dot (a home directory skeleton): still not empty
        fs.put_file(DEST + '/.profile', [('old', 0, 3)])
        fs.put_file(DEST + '/.config/app', [('old2', 0, 3)])
    if dest_state == 'only-lost+found':
        # the top of a freshly made file system -- or anything else that happens to be called that: still not empty
        fs.put_file(DEST + '/lost+found/precious', [('precious', 0, 8)])
    if dest_state == 'only-symlinks':
        # nothing but symbolic links: one of them named like an archived file and pointing outside the destination
        fs.mkdirs(DEST)
        fs.nodes[DEST + '/existing'] = FsNode('symlink', target='../out/sentinel', owner=('pre', 'pre'), mtime=('pre', 'pre'))
        fs.nodes[DEST + '/dangling'] = FsNode('symlink', target='nowhere', owner=('pre', 'pre'), mtime=('pre', 'pre'))
        # ... a dangling one named like an archived file, whose target's directory exists outside (creating the file THROUGH it
        # would create out/absent)
        fs.nodes[DEST + '/n'] = FsNode('symlink', target='../out/absent', owner=('pre', 'pre'), mtime=('pre', 'pre'))
        # ... and one named like an archived directory, pointing at a directory outside
        fs.nodes[DEST + '/p'] = FsNode('symlink', target='../out', owner=('pre', 'pre'), mtime=('pre', 'pre'))
    install_fs(ex, fs)
    install_local_transport(ex, fs)
    return fs


def restore_options(ex, overwrite=False, subtree=None, band=None):
    sel = enum_val(ex, 'band::BandSelectionPolicy', 'LatestClosed') if band is None else \
        enum_val(ex, 'band::BandSelectionPolicy', 'Specified', [Agg('bandid::BandId', None, [band])])
    return mk(ex, 'restore::RestoreOptions', exclude=A.ExcludeV(), only_subtree=some(A.apath_of(subtree)) if subtree else none(),
              overwrite=overwrite, band_selection=sel, change_callback=none(), inject_failures=M.MapV())


def run_restore(ex, ar, dest, opts):
    cands = [n for n, _ in ex.prog.fn_index.get((None, None, 'restore'), []) if n in ('restore', 'restore::restore')]
    if len(cands) != 1:
        raise Unsupported('restore() not found')
    B.install_time(ex)
    r = A.run_async(ex, cands[0], [Ref([ar], 0), PathV(dest), opts, A.monitor_arc(ex)])
    return r


class E:
    """An archive entry of a scenario."""

    def __init__(self, path, kind, size=None, mode=None, user=None, group=None, sec=100, nanos=0, target=None, cls=None):
        self.path, self.kind, self.size, self.mode, self.user, self.group = path, kind, size, mode, user, group
        self.sec, self.nanos, self.target, self.cls = sec, nanos, target, cls


def put_band(ex, st, b, entries, closed=True):
    A.put_head(ex, st, b)
    ents = []
    for e in entries:
        addrs = []
        if e.kind == 'File' and getattr(e, 'parts', None):
            # a file stored in several blocks: parts = [(content class, length), ...]; class 'zero' is a run of zero bytes
            off = {}
            for (c, ln) in e.parts:
                o = off.get(c, 0)
                hsh = A.put_block(ex, st, Data([(c, 0 if c == 'zero' else o, ln)]))
                addrs.append(A.mk_addr(ex, hsh, 0, ln))
                off[c] = o + ln
        elif e.kind == 'File' and e.size is not None:
            hsh = A.put_block(ex, st, Data([(e.cls, 0, e.size)]))
            addrs = [A.mk_addr(ex, hsh, 0, e.size)]
        ents.append(A.mk_entry(ex, e.path, e.kind, e.sec, addrs=addrs, target=e.target, nanos=e.nanos, mode=e.mode,
                               owner=A.mk_owner(ex, e.user, e.group)))
    A.put_hunk(ex, st, b, 0, ents)
    if closed:
        A.put_tail(ex, st, b, 1)


def check_restored(ex, fs, entries, dest, problems, chown_permitted=True):
    for e in entries:
        p = dest + ('' if e.path == '/' else e.path)
        n = fs.nodes.get(p)
        kind = {'File': 'file', 'Dir': 'dir', 'Symlink': 'symlink'}[e.kind]
        if n is None or n.kind != kind:
            problems.append('%s restored as %s, archive has %s' % (e.path, n.kind if n else 'nothing', e.kind))
            continue
        if e.kind == 'File' and e.size is None:
            if n.content:
                problems.append('%s is an empty file in the archive, restored with content %r' % (e.path, n.content))
        elif e.kind == 'File':
            got = Data(n.content).canon(ex)
            if getattr(e, 'parts', None):
                segs, off = [], {}
                for (c, ln) in e.parts:
                    o = off.get(c, 0)
                    segs.append((c, 0 if c == 'zero' else o, ln))
                    off[c] = o + ln
                want = Data(segs).canon(ex)
            else:
                want = Data([(e.cls, 0, e.size)])
            same = got.same(ex, want) if got.segs else eq(e.size, 0)
            if same is False or (same is not True and not ex.check_holds(same)[0]):
                problems.append('%s content restored as %r, archive has %r' % (e.path, got.segs, want.segs))
        if e.kind == 'Symlink' and n.target != e.target:
            problems.append('%s target restored as %r, archive has %r' % (e.path, n.target, e.target))
        ms, mn = n.mtime if n.mtime else (None, None)
        if ms is None or isinstance(ms, str) or not ex.check_holds(b_and(eq(ms, e.sec), eq(mn, e.nanos)))[0]:
            problems.append('%s mtime restored as %r, archive has (%s, %s)' % (e.path, n.mtime, e.sec, e.nanos))
        if e.kind != 'Symlink' and e.mode is not None:
            if n.mode is None or not ex.check_holds(eq(n.mode, e.mode))[0]:
                r0, m = ex.E.check(z3.Not(zbool(eq(n.mode, e.mode)))) if n.mode is not None else (None, None)
                wit = ''
                if m is not None:
                    wit = ' e.g. mode %o restored as %o' % (m.eval(zint(e.mode), model_completion=True).as_long(),
                                                             m.eval(zint(n.mode), model_completion=True).as_long())
                problems.append('%s mode bits not restored exactly%s' % (e.path, wit))
        if chown_permitted and (e.user is not None or e.group is not None):
            if n.owner is None or (e.user is not None and n.owner[0] != e.user) or (e.group is not None and n.owner[1] != e.group):
                problems.append('%s owner restored as %r, archive has (%s, %s)' % (e.path, n.owner, e.user, e.group))


def outside_unchanged(fs, before, dest, problems):
    for p, stt in before.items():
        n = fs.nodes.get(p)
        if n is None:
            problems.append('%s outside the destination was removed' % p)
        elif n.state() != stt:
            problems.append('%s outside the destination was modified: %r -> %r' % (p, stt, n.state()))
    for p in fs.nodes:
        if p not in before and not (p == dest or p.startswith(dest + '/')):
            problems.append('%s was created outside the destination' % p)


def make_meta(prog, chown_permitted=True):
    """C01: every attribute of files, directories and symlinks comes back exactly (symbolic mode, mtime, owner presence)."""
    def mk_():
        res = {'bad': [], 'samples': []}

        def h(ex):
            st, ar = A.new_archive(ex)
            fs = setup_fs(ex, 'absent', chown_permitted)

            def t(label):
                return ex.fresh_int(label + 's', -30000000000, 30000000000), ex.fresh_int(label + 'n', 0, B.NANOS - 1)
            has_owner = ex.branch(ex.fresh_bool('has_owner'), 'owner recorded?')
            u, g = ('alice', 'staff') if has_owner else (None, None)
            fs_, fn_ = t('f')
            ds, dn = t('d')
            ls, ln = t('l')
            es, en = t('e')
            entries = [E('/', 'Dir', mode=ex.fresh_int('rmode', 0, 0o7777), user=u, group=g, sec=50, nanos=1),
                       E('/d', 'Dir', mode=ex.fresh_int('dmode', 0o700, 0o7777), user=u, group=g, sec=ds, nanos=dn),
                       E('/e', 'File', size=None, cls=3, mode=ex.fresh_int('emode', 0, 0o7777), user=u, group=g, sec=es, nanos=en),
                       E('/f', 'File', size=ex.fresh_int('fsize', 1, 1 << 20), cls=1, mode=ex.fresh_int('fmode', 0, 0o7777), user=u, group=g, sec=fs_, nanos=fn_),
                       E('/l', 'Symlink', target='d/g', user=u, group=g, sec=ls, nanos=ln),
                       E('/l.x', 'Dir', mode=0o755, user=u, group=g, sec=11, nanos=0),     # a sibling whose name merely starts with the link's name
                       E('/z0', 'File', size=0, cls='zero', mode=0o644, user=u, group=g, sec=8, nanos=0),
                       E('/z1', 'File', size=0, cls=4, mode=0o644, user=u, group=g, sec=9, nanos=0),
                       E('/d/g', 'File', size=ex.fresh_int('gsize', 1, 1 << 20), cls=2, mode=ex.fresh_int('gmode', 0, 0o7777), user=u, group=g, sec=7, nanos=7),
                       E('/l.x/h', 'File', size=4, cls=6, mode=0o644, user=u, group=g, sec=12, nanos=0)]
            # /z0: nothing but zero bytes; /z1: data, a run of zeros in the middle, data, and zeros at the end (sparse-file shapes)
            entries[-4].parts = [('zero', ex.fresh_int('z0len', 1, 1 << 20))]
            entries[-3].parts = [(4, ex.fresh_int('z1a', 1, 1 << 16)), ('zero', ex.fresh_int('z1b', 1, 1 << 16)), (4, ex.fresh_int('z1c', 1, 1 << 16)),
                                 ('zero', ex.fresh_int('z1d', 1, 1 << 16))]
            ex.assume((entries[1].mode / 64) % 8 == 7)      # the directory stays writable/searchable for its owner
            put_band(ex, st, 0, entries)
            ex.env['bands'] = [(0, True, entries)]
            st.mode = 'run'
            before = {p: n.state() for p, n in fs.nodes.items()}
            r = run_restore(ex, ar, DEST, restore_options(ex))
            problems = []
            if r.variant != 0:
                problems.append('restore failed: %s' % variant_name(ex, r.fields[0]))
            errs = ex.env['monitor'].errors
            if errs:
                problems.append('restore reported errors: %s' % [variant_name(ex, e) for e in errs][:3])
            check_restored(ex, fs, entries, DEST, problems, chown_permitted)
            outside_unchanged(fs, before, DEST, problems)
            return problems, fs

        def on_path(ex, out):
            if out[0] == 'panic':
                r0, m = ex.E.check()
                res['bad'].append({'kind': 'panic', 'msg': str(out[1])[:200], 'where': out[1].where, 'model': B.model_values(m)})
                return
            if out[0] != 'ok':
                return
            problems, fs = out[1]
            if problems:
                r0, m = ex.E.check()
                res['bad'].append({'kind': 'problem', 'problems': problems[:5], 'model': B.model_values(m),
                                   'syscalls': fs.log[-25:], 'scenario': {'bands': bands_json(m, ex.env['bands']), 'restore_band': 0,
                                                                          'chown_permitted': chown_permitted}})
            elif not res['samples']:
                res['samples'].append({'syscalls': fs.log})
        return h, on_path, res
    return mk_


# legal Unix names that a reader might mishandle: control characters, bytes below '/', DEL, C1 controls, multi-byte, dots
ODD_NAMES = ['\x01', '\t', 'line\nbreak', '\x1f', ' ', '-', '~', '\x7f', '\x80', '\u009f', '\u00e9', '\U00010000', 'a.b', '..x', '.hidden', 'x..']


def make_names(prog):
    """C01: entries whose names are unusual but legal restore like any other (name chosen by the solver from ODD_NAMES)."""
    def mk_():
        res = {'bad': [], 'samples': []}

        def h(ex):
            st, ar = A.new_archive(ex)
            fs = setup_fs(ex, 'absent', True)
            ni = ex.concretize(ex.fresh_int('name', 0, len(ODD_NAMES) - 1), 0, len(ODD_NAMES) - 1, 'file name')
            name = ODD_NAMES[ni]
            as_dir = ex.branch(ex.fresh_bool('as_dir'), 'the odd name is a directory holding a file?')
            entries = [E('/', 'Dir', mode=0o755, sec=50, nanos=1)]
            if as_dir:
                entries += [E('/' + name, 'Dir', mode=0o755, sec=3, nanos=0), E('/' + name + '/f', 'File', size=ex.fresh_int('fsize', 1, 1 << 20), cls=1, mode=0o644, sec=4, nanos=0)]
            else:
                entries += [E('/' + name, 'File', size=ex.fresh_int('fsize', 1, 1 << 20), cls=1, mode=0o644, sec=4, nanos=0)]
            put_band(ex, st, 0, entries)
            ex.env['bands'] = [(0, True, entries)]
            st.mode = 'run'
            before = {p: n.state() for p, n in fs.nodes.items()}
            r = run_restore(ex, ar, DEST, restore_options(ex))
            problems = []
            if r.variant != 0:
                problems.append('restore failed: %s' % variant_name(ex, r.fields[0]))
            errs = ex.env['monitor'].errors
            if errs:
                problems.append('restore reported errors: %s' % [variant_name(ex, e) for e in errs][:3])
            check_restored(ex, fs, entries, DEST, problems, True)
            outside_unchanged(fs, before, DEST, problems)
            return problems, fs, name

        def on_path(ex, out):
            if out[0] == 'panic':
                r0, m = ex.E.check()
                res['bad'].append({'kind': 'panic', 'msg': str(out[1])[:200], 'where': out[1].where, 'model': B.model_values(m)})
                return
            if out[0] != 'ok':
                return
            problems, fs, name = out[1]
            if problems:
                r0, m = ex.E.check()
                res['bad'].append({'kind': 'problem', 'problems': problems[:5], 'model': B.model_values(m), 'name': name,
                                   'syscalls': fs.log[-25:], 'scenario': {'bands': bands_json(m, ex.env['bands']), 'restore_band': 0,
                                                                          'chown_permitted': True}})
            elif len(res['samples']) < 2:
                r0, m = ex.E.check()
                res['samples'].append({'name': name, 'result': 'Ok', 'errors': [], 'syscalls': fs.log[-6:],
                                       'scenario': {'bands': bands_json(m, ex.env['bands']), 'restore_band': 0}})
        return h, on_path, res
    return mk_


TARGETS = ['../out', '/abs', '../out/sentinel', '/abs/sentinel', 'd', '..', '.']


def make_contain(prog, stitched):
    """C16: whatever symlinks a version contains, restore touches nothing outside the destination.
    stitched=False: one closed band with files, dirs and symlinks (targets chosen by the solver from TARGETS);
    stitched=True : an interrupted newer band whose '/a' is a symlink, stitched onto an older band where '/a' is a directory
                    with children (what a real interrupted backup after 'rm -r a; ln -s ../out a' leaves)."""
    def mk_():
        res = {'bad': [], 'samples': []}

        def h(ex):
            st, ar = A.new_archive(ex)
            fs = setup_fs(ex, 'absent')
            ti = ex.concretize(ex.fresh_int('target', 0, len(TARGETS) - 1), 0, len(TARGETS) - 1, 'symlink target')
            tgt = TARGETS[ti]
            own = ex.branch(ex.fresh_bool('has_owner'), 'owner?')
            u = 'alice' if own else None
            mode = ex.fresh_int('mode', 0, 0o7777)
            if stitched:
                # (in apath order: the entries of a directory come before the contents of its subdirectories)
                old = [E('/', 'Dir', mode=0o755, sec=1), E('/a', 'Dir', mode=0o755, user=u, sec=2), E('/d', 'Dir', mode=0o755, sec=3),
                       E('/a/lnk', 'Symlink', target='x', user=u, sec=8, mode=0o777),
                       E('/a/sub', 'Dir', mode=0o755, user=u, sec=5),
                       E('/a/x', 'File', size=5, cls=1, mode=mode, user=u, sec=4),
                       E('/a/sub/sentinel2', 'File', size=6, cls=2, mode=mode, user=u, sec=6),
                       E('/a/sub/y', 'File', size=4, cls=3, mode=0o644, sec=7)]
                new = [E('/', 'Dir', mode=0o755, sec=1), E('/a', 'Symlink', target=tgt, user=u, sec=9, mode=0o777)]
                put_band(ex, st, 0, old)
                put_band(ex, st, 1, new, closed=False)
                band = 1
                entries = None
                ex.env['bands'] = [(0, True, old), (1, False, new)]
            else:
                entries = [E('/', 'Dir', mode=0o755, sec=1), E('/d', 'Dir', mode=0o755, user=u, sec=3), E('/l', 'Symlink', target=tgt, user=u, sec=9, mode=0o777),
                           E('/z', 'File', size=5, cls=1, mode=mode, user=u, sec=4)]
                put_band(ex, st, 0, entries)
                band = 0
                ex.env['bands'] = [(0, True, entries)]
            ex.env['restore_band'] = band
            st.mode = 'run'
            before = {p: n.state() for p, n in fs.nodes.items()}
            r = run_restore(ex, ar, DEST, restore_options(ex, band=band))
            problems = []
            outside_unchanged(fs, before, DEST, problems)
            return problems, fs, tgt, r.variant, [variant_name(ex, e) for e in ex.env['monitor'].errors]

        def on_path(ex, out):
            if out[0] == 'panic':
                res['bad'].append({'kind': 'panic', 'msg': str(out[1])[:200], 'where': out[1].where})
                return
            if out[0] != 'ok':
                return
            problems, fs, tgt, rv, errs = out[1]
            if problems:
                r0, m = ex.E.check()
                res['bad'].append({'kind': 'escape', 'problems': problems[:5], 'target': tgt, 'stitched': stitched,
                                   'model': B.model_values(m), 'syscalls': fs.log[-20:],
                                   'scenario': {'bands': bands_json(m, ex.env['bands']), 'restore_band': ex.env['restore_band']}})
            elif len(res['samples']) < 2:
                r0, m = ex.E.check()
                res['samples'].append({'target': tgt, 'stitched': stitched, 'result': 'Ok' if rv == 0 else 'Err', 'errors': errs,
                                       'syscalls': fs.log[-12:],
                                       'scenario': {'bands': bands_json(m, ex.env['bands']), 'restore_band': ex.env['restore_band']}})
        return h, on_path, res
    return mk_


DEST_STATES = ['absent', 'empty', 'populated', 'only-symlinks', 'only-dotfiles', 'only-lost+found']


def make_refuse(prog):
    """C16(c): without overwrite a non-empty destination is refused before any mutating call."""
    def mk_():
        res = {'bad': [], 'samples': []}

        def h(ex):
            st, ar = A.new_archive(ex)
            state = DEST_STATES[ex.concretize(ex.fresh_int('dest', 0, len(DEST_STATES) - 1), 0, len(DEST_STATES) - 1, 'dest state')]
            overwrite = ex.branch(ex.fresh_bool('overwrite'), 'overwrite?')
            fs = setup_fs(ex, state)
            entries = [E('/', 'Dir', mode=0o755, sec=1), E('/existing', 'File', size=4, cls=7, mode=0o600, sec=2), E('/n', 'File', size=3, cls=8, mode=0o644, sec=3),
                       E('/p', 'Dir', mode=0o755, sec=4), E('/p/f', 'File', size=5, cls=9, mode=0o644, sec=5)]
            put_band(ex, st, 0, entries)
            ex.env['bands'] = [(0, True, entries)]
            st.mode = 'run'
            # the whole tree, or only the subtree /p (the root entry is then not part of the selection)
            subtree = '/p' if ex.branch(ex.fresh_bool('only_subtree'), 'restore only a subtree?') else None
            ex.env['subtree'] = subtree
            before = {p: n.state() for p, n in fs.nodes.items()}
            r = run_restore(ex, ar, DEST, restore_options(ex, overwrite=overwrite, subtree=subtree))
            problems = []
            if state in ('populated', 'only-symlinks', 'only-dotfiles', 'only-lost+found') and not overwrite:
                if r.variant == 0 or variant_name(ex, r.fields[0]) != 'DestinationNotEmpty':
                    problems.append('restore into a non-empty destination without overwrite was not refused')
                for p, stt in before.items():
                    n = fs.nodes.get(p)
                    if n is None or n.state() != stt:
                        problems.append('%s changed although the restore was refused' % p)
                for p in fs.nodes:
                    if p not in before:
                        problems.append('%s created although the restore was refused' % p)
            else:
                if r.variant != 0:
                    problems.append('restore failed: %s' % variant_name(ex, r.fields[0]))
                # an accepted restore (empty destination, or overwrite into a populated one -- including one whose
                # entries are symlinks left by an earlier restore) still touches nothing outside the destination
                outside = {p: s_ for p, s_ in before.items() if not (p == DEST or p.startswith(DEST + '/'))}
                outside_unchanged(fs, outside, DEST, problems)
            return problems, state, overwrite, fs

        def on_path(ex, out):
            if out[0] == 'panic':
                res['bad'].append({'kind': 'panic', 'msg': str(out[1])[:200], 'where': out[1].where})
                return
            if out[0] != 'ok':
                return
            problems, state, overwrite, fs = out[1]
            if problems:
                sc_ = {'bands': bands_json(None, ex.env['bands']), 'restore_band': 0, 'dest': state, 'overwrite': overwrite}
                if ex.env.get('subtree'):
                    sc_['subtree'] = ex.env['subtree']
                res['bad'].append({'kind': 'refusal', 'problems': problems[:4], 'dest': state, 'overwrite': overwrite, 'syscalls': fs.log[-10:],
                                   'subtree': ex.env.get('subtree'), 'scenario': sc_})
            elif len(res['samples']) < 2:
                res['samples'].append({'dest': state, 'overwrite': overwrite, 'syscalls': fs.log[-6:]})
        return h, on_path, res
    return mk_


def make_only(prog):
    """C12 clause 3: restore --only S restores exactly the entries under S (whole components), identical to a full restore."""
    names = ['/a', '/a.b', '/ab', '/a/x', '/a/sub', '/a/sub/y', '/a/sub/deep', '/a/sub/deep/w', '/a.b/z', '/é', '/é/w', '/éé']

    def mk_():
        res = {'bad': [], 'samples': []}

        def h(ex):
            st, ar = A.new_archive(ex)
            fs = setup_fs(ex, 'absent')
            kinds = {'/a': 'Dir', '/a.b': 'Dir', '/ab': 'File', '/a/x': 'File', '/a/sub': 'Dir', '/a/sub/y': 'File', '/a/sub/deep': 'Dir', '/a/sub/deep/w': 'File', '/a.b/z': 'File',
                     '/é': 'Dir', '/é/w': 'File', '/éé': 'File'}
            order = sorted(names, key=lambda p: B.apath_key(p))
            entries = [E('/', 'Dir', mode=0o755, sec=1)]
            for i, p in enumerate(order):
                if kinds[p] == 'Dir':
                    entries.append(E(p, 'Dir', mode=0o755, sec=10 + i))
                else:
                    entries.append(E(p, 'File', size=ex.fresh_int('sz%d' % i, 1, 100), cls=20 + i, mode=0o644, sec=10 + i))
            put_band(ex, st, 0, entries)
            ex.env['bands'] = [(0, True, entries)]
            st.mode = 'run'
            dirs = [p for p in names if kinds[p] == 'Dir']
            si = ex.concretize(ex.fresh_int('subtree', 0, len(dirs) - 1), 0, len(dirs) - 1, 'subtree')
            sub = dirs[si]
            r = run_restore(ex, ar, DEST, restore_options(ex, subtree=sub))
            problems = []
            if r.variant != 0:
                problems.append('restore --only %s failed' % sub)
            if ex.env['monitor'].errors:
                problems.append('restore --only %s reported errors %s' % (sub, [variant_name(ex, e) for e in ex.env['monitor'].errors][:2]))
            inside = [e for e in entries if e.path == sub or e.path.startswith(sub + '/')]
            check_restored(ex, fs, inside, DEST, problems)
            want = {DEST + e.path for e in inside}
            parents = set()
            for w in want:
                q = w
                while q != DEST:
                    q = q.rsplit('/', 1)[0]
                    parents.add(q)
            for p in fs.nodes:
                if (p == DEST or p.startswith(DEST + '/')) and p not in want and p not in parents:
                    problems.append('restore --only %s also restored %s' % (sub, p[len(DEST):]))
            return problems, sub

        def on_path(ex, out):
            if out[0] == 'panic':
                res['bad'].append({'kind': 'panic', 'msg': str(out[1])[:200], 'where': out[1].where})
                return
            if out[0] != 'ok':
                return
            problems, sub = out[1]
            if problems:
                r0, m = ex.E.check()
                res['bad'].append({'kind': 'only-subtree', 'problems': problems[:4], 'subtree': sub,
                                   'scenario': {'bands': bands_json(m, ex.env['bands']), 'restore_band': 0, 'subtree': sub}})
            elif len(res['samples']) < 1:
                res['samples'].append({'subtree': sub})
        return h, on_path, res
    return mk_


def conc(m, v):
    if m is None or not is_sym(v):
        return v if not is_sym(v) else None
    r = m.eval(v, model_completion=True)
    return r.as_long() if z3.is_int_value(r) else z3.is_true(r)


def bands_json(m, bands):
    """bands: [(band, closed, [E...])] -> JSON for the native 'restore_raw' scenario, evaluated in model m."""
    out = []
    for b, closed, ents in bands:
        js = []
        for e in ents:
            js.append({'path': e.path, 'kind': e.kind, 'size': conc(m, e.size) if e.size is not None else 0, 'class': e.cls or 1,
                       'mode': conc(m, e.mode) if e.mode is not None else None, 'user': 'root' if e.user else None,
                       'group': 'root' if e.group else None, 'mtime': [conc(m, e.sec), conc(m, e.nanos)], 'target': e.target})
            if getattr(e, 'parts', None):
                js[-1]['parts'] = [[c, conc(m, ln)] for (c, ln) in e.parts]
                js[-1]['class'] = 1
        out.append({'band': b, 'closed': closed, 'entries': js})
    return out
