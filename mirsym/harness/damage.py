"""C10 / C09: damaged archives.  (1) decoded-field layer: one index entry with arbitrary decoded field values;
(2) containment layer: one stored file deleted / emptied / replaced by undecodable bytes."""
import re

import z3

from ..interp import Explorer, Stats, parallel_explore
from ..values import *  # noqa
from .. import env, models as M
from ..models import deref, some, none, ok, err, PathV
from ..env import mk, enum_val, field, variant_name, Data, Raw, Garbage, Compressed, JsonDoc
from . import arch as A
from . import backup as B
from . import restoreh as R

U64 = (1 << 64) - 1


def weird_entry(ex, st, good_block, good_len):
    """An IndexEntry whose fields are whatever a damaged-but-still-JSON hunk could decode to."""
    ki = ex.concretize(ex.fresh_int('wkind', 0, 3), 0, 3, 'kind')
    kind = ['File', 'Dir', 'Symlink', 'Unknown'][ki]
    mtime = ex.fresh_int('wmtime', -(1 << 63), (1 << 63) - 1)
    nanos = ex.fresh_int('wnanos', 0, (1 << 32) - 1)
    has_target = ex.branch(ex.fresh_bool('whas_target'), 'target present?')
    naddr = ex.concretize(ex.fresh_int('wnaddr', 0, 2), 0, 2, 'addresses')
    addrs = []
    if naddr:
        start = ex.fresh_int('wstart', 0, U64)
        ln = ex.fresh_int('wlen', 0, U64)
        if ex.branch(ex.fresh_bool('wblock_present'), 'block present?'):
            h = good_block
        else:
            h = env.HashV(777, 'f' * 128)
        addrs.append(A.mk_addr(ex, h, start, ln))
    if naddr == 2:
        # a second address: the lengths of several addresses are summed up by size()
        addrs.append(A.mk_addr(ex, good_block, ex.fresh_int('wstart2', 0, U64), ex.fresh_int('wlen2', 0, U64)))
    e = A.mk_entry(ex, '/m', kind, mtime, addrs=addrs, target='t' if has_target else None, nanos=nanos,
                   mode=ex.fresh_int('wmode', 0, (1 << 32) - 1))
    return e, dict(kind=kind, mtime=mtime, nanos=nanos, has_target=has_target, naddr=naddr)


def build_decoded(ex, apath_variant='valid', version='0.6.3'):
    st, ar = A.new_archive(ex)
    good = Data([(5, 0, 10)])
    gh = A.put_block(ex, st, good)
    root = A.mk_entry(ex, '/', 'Dir', 1, mode=0o755)
    w, desc = weird_entry(ex, st, gh, 10)
    if apath_variant != 'valid':
        env.set_field(ex, w, 'index::entry::IndexEntry', 'apath', A.apath_of(apath_variant))
    n = A.mk_entry(ex, '/n', 'File', 3, addrs=[A.mk_addr(ex, gh, 0, 10)], mode=0o644)
    A.put_head(ex, st, 0, version)
    A.put_hunk(ex, st, 0, 0, [root, w, n], raw=True)
    # the tail is decoded too: its hunk count may say anything (a flipped digit), or be absent as in old archives
    if ex.branch(ex.fresh_bool('wtail_count_present'), 'tail has a count?'):
        # (chosen from a list: the count ends up in an error message, and a symbolic integer cannot be formatted)
        counts = [0, 1, 2, 9, U64]
        A.put_tail(ex, st, 0, counts[ex.concretize(ex.fresh_int('wtail_count_i', 0, len(counts) - 1), 0, len(counts) - 1, 'tail hunk count')])
    else:
        A.put_tail(ex, st, 0, None)
    st.mode = 'run'
    return st, ar, desc


def make_decoded(prog, op, apath_variant='valid', version='0.6.3'):
    def mk_():
        res = {'bad': [], 'samples': [], 'notes': []}

        def h(ex):
            st, ar, desc = build_decoded(ex, apath_variant, version)
            ex.env['desc'] = desc
            B.install_time(ex)
            out = {}
            if op == 'restore':
                fs = R.setup_fs(ex, 'absent')
                r = R.run_restore(ex, ar, R.DEST, R.restore_options(ex))
                out['result'] = 'Ok' if r.variant == 0 else 'Err:' + variant_name(ex, r.fields[0])
                n = fs.nodes.get(R.DEST + '/n')
                # /n shares the hunk with the damaged entry: losing it is acceptable only if an error is reported
                if r.variant == 0 and (n is None or not Data(n.content).canon(ex).segs) and not ex.env['monitor'].errors:
                    out['lost'] = 'the entry /n next to the damaged one was dropped without any error being reported'
            elif op == 'list':
                got = B.real_stitch(ex, ar, 0)
                out['listed'] = len(got)
            elif op == 'validate':
                vname = A.fn_by(prog, 'Archive', None, 'validate')
                vo = mk(ex, 'validate::ValidateOptions', skip_block_hashes=ex.branch(ex.fresh_bool('skip'), 'quick validate?'))
                r = A.run_async(ex, vname, [Ref([ar], 0), Ref([vo], 0), A.monitor_arc(ex)])
                out['result'] = 'Ok' if r.variant == 0 else 'Err'
            elif op == 'backup':
                tree = B.SourceTreeV([B.SrcFile('/', 'Dir', mtime=B.TimeV(1, 0), mode=0o755),
                                      B.SrcFile('/m', 'File', cls=9, size=4, mtime=B.TimeV(50, 0), mode=0o644),
                                      B.SrcFile('/n', 'File', cls=5, size=10, mtime=B.TimeV(3, 0), mode=0o644)])
                r = B.run_backup(ex, ar, tree, B.backup_options(ex, 1000, 1 << 20, 1 << 10))
                out['result'] = r[0]
            out['errors'] = [variant_name(ex, e) for e in ex.env['monitor'].errors][:4]
            out['overflowed'] = ex.env.get('overflowed', [])[:3]
            return out

        def on_path(ex, o):
            if o[0] == 'panic':
                r0, m = ex.E.check()
                d = ex.env.get('desc', {})
                ev = lambda v: (m.eval(zint(v), model_completion=True).as_long() if m is not None and is_sym(v) else v)
                res['bad'].append({'kind': 'panic', 'op': op, 'msg': str(o[1])[:160], 'where': o[1].where,
                                   'entry': {k: ev(v) for k, v in d.items()}, 'model': B.model_values(m), 'apath': apath_variant,
                                   'version': version})
                return
            if o[0] != 'ok':
                return
            out = o[1]
            if out.get('lost'):
                r0, m = ex.E.check()
                res['bad'].append({'kind': 'not-contained', 'op': op, 'msg': out['lost'], 'model': B.model_values(m), 'apath': apath_variant,
                                   'version': version, 'entry': {}})
            if out.get('overflowed'):
                # arithmetic on decoded values overflowed: a panic in builds with overflow checks, a silently wrong number otherwise
                res['notes'].append(out['overflowed'][0])
                r0, m = ex.E.check()
                d = ex.env.get('desc', {})
                ev = lambda v: (m.eval(zint(v), model_completion=True).as_long() if m is not None and is_sym(v) else v)
                res['bad'].append({'kind': 'panic', 'op': op, 'msg': 'arithmetic overflow on decoded values at %s (panics where overflow checks are on, wraps silently otherwise)' % out['overflowed'][0],
                                   'where': out['overflowed'][0], 'entry': {k: ev(v) for k, v in d.items()}, 'model': B.model_values(m),
                                   'apath': apath_variant, 'version': version})
            if len(res['samples']) < 1:
                res['samples'].append({'op': op, 'outcome': out})
        return h, on_path, res
    return mk_


# ============================================================================ containment layer (C10) / validate accuracy (C09)
HOWS = ['delete', 'empty', 'garbage', 'altered']


def build_history(ex, variant):
    """'single': one closed band, two hunks, a block shared by two files.
    'two': an older closed band (with an entry sorting after everything in the newer one) and a newer band that is closed or
    still open (solver-chosen), each with a block of its own."""
    st, ar = A.new_archive(ex)
    sz = {k: ex.fresh_int('size' + k, 1, 1 << 20) for k in 'ABCZMN'}
    blk = {}

    def block(k, cls):
        blk[k] = A.put_block(ex, st, Data([(cls, 0, sz[k])]))
        return A.mk_addr(ex, blk[k], 0, sz[k])
    root = lambda: A.mk_entry(ex, '/', 'Dir', 1, mode=0o755)
    if variant == 'single':
        A.put_head(ex, st, 0)
        A.put_hunk(ex, st, 0, 0, [root(), A.mk_entry(ex, '/a', 'File', 2, addrs=[block('A', 1)], mode=0o644),
                                   A.mk_entry(ex, '/a2', 'File', 2, addrs=[A.mk_addr(ex, blk['A'], 0, sz['A'])], mode=0o644)])
        A.put_hunk(ex, st, 0, 1, [A.mk_entry(ex, '/b', 'File', 3, addrs=[block('B', 2)], mode=0o600)])
        # finished, or interrupted after its second hunk
        if ex.branch(ex.fresh_bool('newest_closed'), 'band closed?'):
            A.put_tail(ex, st, 0, 2)
    elif variant == 'subdir':
        # a directory recorded in one hunk and the file inside it in the next: losing the first hunk must not cost the file
        A.put_head(ex, st, 0)
        A.put_hunk(ex, st, 0, 0, [root(), A.mk_entry(ex, '/d', 'Dir', 2, mode=0o750)])
        A.put_hunk(ex, st, 0, 1, [A.mk_entry(ex, '/d/f', 'File', 3, addrs=[block('A', 1)], mode=0o644)])
        A.put_tail(ex, st, 0, 2)
    elif variant == 'chain':
        # two unfinished versions over a finished one: the newest takes '/a' from the middle one and '/z' from the oldest
        A.put_head(ex, st, 0)
        A.put_hunk(ex, st, 0, 0, [root(), A.mk_entry(ex, '/a', 'File', 2, addrs=[block('A', 1)], mode=0o644),
                                   A.mk_entry(ex, '/z', 'File', 4, addrs=[block('Z', 4)], mode=0o644)])
        A.put_tail(ex, st, 0, 1)
        A.put_head(ex, st, 1)
        A.put_hunk(ex, st, 1, 0, [root(), A.mk_entry(ex, '/a', 'File', 5, addrs=[block('B', 2)], mode=0o644)])
        A.put_head(ex, st, 2)
        A.put_hunk(ex, st, 2, 0, [root()])
    elif variant == 'deep':
        # a finished band of three hunks and an unfinished newer one of two hunks that stitches onto it for its tail
        A.put_head(ex, st, 0)
        A.put_hunk(ex, st, 0, 0, [root(), A.mk_entry(ex, '/a', 'File', 2, addrs=[block('A', 1)], mode=0o644)])
        A.put_hunk(ex, st, 0, 1, [A.mk_entry(ex, '/b', 'File', 3, addrs=[block('B', 2)], mode=0o600)])
        A.put_hunk(ex, st, 0, 2, [A.mk_entry(ex, '/c', 'File', 4, addrs=[block('C', 3)], mode=0o644)])
        A.put_tail(ex, st, 0, 3)
        A.put_head(ex, st, 1)
        A.put_hunk(ex, st, 1, 0, [root(), A.mk_entry(ex, '/a', 'File', 5, addrs=[block('Z', 4)], mode=0o644)])
        A.put_hunk(ex, st, 1, 1, [A.mk_entry(ex, '/b', 'File', 3, addrs=[A.mk_addr(ex, blk['B'], 0, sz['B'])], mode=0o600)])
    elif variant == 'multi':
        # a file stored in two blocks next to a single-block file
        m1 = A.put_block(ex, st, Data([(5, 0, sz['M'])]))
        m2 = A.put_block(ex, st, Data([(5, sz['M'], sz['N'])]))
        blk['M'], blk['N'] = m1, m2
        A.put_head(ex, st, 0)
        A.put_hunk(ex, st, 0, 0, [root(), A.mk_entry(ex, '/a', 'File', 2, addrs=[block('A', 1)], mode=0o644),
                                   A.mk_entry(ex, '/m', 'File', 4, addrs=[A.mk_addr(ex, m1, 0, sz['M']), A.mk_addr(ex, m2, 0, sz['N'])], mode=0o644)])
        A.put_tail(ex, st, 0, 1)
        ex.env['hist_sizes'] = sz
    else:
        A.put_head(ex, st, 0)
        A.put_hunk(ex, st, 0, 0, [root(), A.mk_entry(ex, '/a', 'File', 2, addrs=[block('A', 1)], mode=0o644),
                                   A.mk_entry(ex, '/z', 'File', 4, addrs=[block('Z', 4)], mode=0o644)])
        A.put_tail(ex, st, 0, 1)
        A.put_head(ex, st, 1)
        A.put_hunk(ex, st, 1, 0, [root(), A.mk_entry(ex, '/a', 'File', 2, addrs=[A.mk_addr(ex, blk['A'], 0, sz['A'])], mode=0o644),
                                   A.mk_entry(ex, '/c', 'File', 5, addrs=[block('C', 3)], mode=0o644)])
        if ex.branch(ex.fresh_bool('newest_closed'), 'newest band closed?'):
            A.put_tail(ex, st, 1, 1)
    return st, ar


def damageable(st):
    return sorted(p for p, n in st.nodes.items() if n.kind == 'file' and p != 'CONSERVE')


def apply_damage(ex, st, path, how):
    if how == 'delete':
        del st.nodes[path]
    elif how == 'empty':
        st.nodes[path].payload = Raw(b'')
    elif how == 'garbage':
        st.nodes[path].payload = Garbage(11)
    else:
        # still decompresses, but to different bytes (a bit flip inside a stored block)
        old = st.nodes[path].payload
        if not (path.startswith('d/') and isinstance(old, Compressed)):
            raise Infeasible()
        st.nodes[path].payload = Compressed(Data([(99, 0, old.inner.length(ex))]), 9)


def version_views(ex, st, ar):
    """What each version restores to, as the real reader sees it: band -> list of (path, kind, [(hash id, start, len, block healthy?)]) or 'unopenable'."""
    bands, blocks = A.read_store(ex, st)
    views = {}
    for b in sorted(bands):
        if not bands[b].get('head_present'):
            continue
        ex.env['monitor'].errors.clear()
        try:
            got = B.real_stitch(ex, ar, b)
        except Panic:
            views[b] = 'panic'
            continue
        if any(variant_name(ex, e) in ('BandHeadMissing',) or True for e in ex.env['monitor'].errors if False):
            pass
        opened = bands[b].get('head')
        if not opened:
            views[b] = 'unopenable'
            continue
        v = []
        for ef in got:
            parts = []
            for a_ in ef['addrs']:
                h = field(ex, a_, 'blockdir::Address', 'hash')
                pl = blocks.get(h.name)
                healthy = False
                if pl is not None and isinstance(pl[1], Compressed) and isinstance(pl[1].inner, Data):
                    want = st.hashes.content_of(h)
                    healthy = want is not None and want.same(ex, pl[1].inner) is not False
                parts.append((h.hid, healthy))
            v.append((ef['apath'], ef['kind'], tuple(parts)))
        views[b] = v
    ex.env['monitor'].errors.clear()
    return views


def make_contained(prog, op, variant='single'):
    """op: 'restore' | 'validate' | 'backup'"""
    def mk_():
        res = {'bad': [], 'samples': []}

        def h(ex):
            st, ar = build_history(ex, variant)
            st.mode = 'run'
            B.install_time(ex)
            before = version_views(ex, st, ar)
            files = damageable(st)
            ti = ex.concretize(ex.fresh_int('target', 0, len(files) - 1), 0, len(files) - 1, 'damaged file')
            hi = ex.concretize(ex.fresh_int('how', 0, len(HOWS) - 1), 0, len(HOWS) - 1, 'damage kind')
            path, how = files[ti], HOWS[hi]
            role = BCrole(path)
            apply_damage(ex, st, path, how)
            ex.env['damage'] = (path, how)
            # a fresh reader (BlockDir caches, listings) is created by every operation below
            after = version_views(ex, st, ar)
            changed = [b for b in before if before[b] != after.get(b)]
            # a removed tail is the format's legal 'incomplete' state, and so is a zero-length one (a backup killed while writing it)
            tail_removed = role == 'tail' and how in ('delete', 'empty')
            harmful = bool(changed) and not tail_removed
            out = {'target': role, 'path': path, 'how': how, 'problems': [], 'harmful': harmful, 'changed_versions': changed}
            if op == 'validate':
                quick = ex.branch(ex.fresh_bool('skip'), 'quick validate?')
                vname = A.fn_by(prog, 'Archive', None, 'validate')
                vo = mk(ex, 'validate::ValidateOptions', skip_block_hashes=quick)
                r = A.run_async(ex, vname, [Ref([ar], 0), Ref([vo], 0), A.monitor_arc(ex)])
                errs = [variant_name(ex, e) for e in ex.env['monitor'].errors]
                out['result'] = 'Ok' if r.variant == 0 else 'Err:' + variant_name(ex, r.fields[0])
                out['errors'] = errs[:4]
                out['quick'] = quick
                content_only = role == 'block' and how in ('garbage', 'altered')
                must_report = harmful and (not quick or not content_only)
                # deleting or emptying the LAST hunk of a band that has no tail leaves exactly the state of an earlier interruption: legal, undetectable
                bnum = int(path[1:5]) if path.startswith('b') else None
                if role == 'hunk' and bnum is not None and (A.band_name(bnum) + '/BANDTAIL') not in st.nodes and \
                        how in ('delete', 'empty') and is_last_hunk(st, path):
                    must_report = False
                if must_report and r.variant == 0 and not errs:
                    out['problems'].append('validate (%s) reports nothing although %s was %s and versions %s no longer restore as before'
                                           % ('quick' if quick else 'full', role, how, changed))
            elif op == 'restore':
                bands_ = sorted(before)
                bi = ex.concretize(ex.fresh_int('restore_band', 0, len(bands_) - 1), 0, len(bands_) - 1, 'band to restore')
                b = bands_[bi]
                out['band'] = b
                fs = R.setup_fs(ex, 'absent')
                r = R.run_restore(ex, ar, R.DEST, R.restore_options(ex, band=b))
                errs = [variant_name(ex, e) for e in ex.env['monitor'].errors]
                out['result'] = 'Ok' if r.variant == 0 else 'Err:' + variant_name(ex, r.fields[0])
                out['errors'] = errs[:4]
                bnum = int(path[1:5]) if path.startswith('b') else None
                # deleting or emptying the last hunk of a band without a tail is exactly what an interrupted backup leaves
                legal_state = role == 'hunk' and bnum is not None and (A.band_name(bnum) + '/BANDTAIL') not in st.nodes and \
                    how in ('delete', 'empty') and is_last_hunk(st, path)
                # (the head of ANOTHER band that this version stitches through is not excused: the files that came from it are lost
                # to this version and that must be reported)
                foreign_head = False
                if r.variant == 0 and isinstance(before[b], list) and not tail_removed and not legal_state and not foreign_head:
                    aft = {p: parts for p, k, parts in after[b]} if isinstance(after.get(b), list) else {}
                    for (p, kind, parts) in before[b]:
                        if kind != 'File':
                            continue
                        n = fs.nodes.get(R.DEST + p)
                        restored = n is not None and n.kind == 'file' and bool(n.content)
                        untouched = aft.get(p) == parts and all(hl for _, hl in parts)
                        if untouched:
                            cls_ok = restored and all(c != 99 for c, o, l in n.content)
                            parent = p.rsplit('/', 1)[0]
                            parent_lost = bool(parent) and any(q == parent for q, _k, _p in before[b]) and parent not in aft
                            if not cls_ok and parent_lost and errs:
                                # a distinct, recorded situation: the file's own hunk and blocks are intact but the entry of its
                                # directory was in the damaged hunk, and restore does not create missing parents (it reports the failure)
                                out['problems'].append('%s of band %d (index hunk and blocks untouched) was not restored: the entry of its directory %s was lost and restore does not create missing parent directories' % (p, b, parent))
                                out['site'] = 'parent-directory-entry-lost'
                            elif not cls_ok:
                                out['problems'].append('%s of band %d (index hunk and blocks untouched) was not restored exactly' % (p, b))
                                out['site'] = None
                        else:
                            bad_content = restored and any(c == 99 for c, o, l in n.content)
                            if bad_content:
                                out['problems'].append('%s of band %d was restored with altered bytes' % (p, b))
                            if not errs:
                                out['problems'].append('%s of band %d was lost or altered by the damage but no error was reported' % (p, b))
                    if role == 'head' and not out['problems']:
                        # independent of what the reader under test makes of the damaged archive: every file that the stitching rule
                        # (written from the property statement, harness/backup.py) still assigns to this version from a band whose head,
                        # hunk and blocks are intact must come back
                        bands_now, blocks_now = A.read_store(ex, st)
                        for (sb, p) in B.expected_stitch(ex, st, b):
                            if sb == bnum or p == '/':
                                continue
                            ent = [e for hn in bands_now[sb]['hunks'] for e in (bands_now[sb]['hunks'][hn] or []) if B.entry_fields(ex, e)['apath'] == p]
                            if not ent or B.entry_fields(ex, ent[0])['kind'] != 'File':
                                continue
                            n = fs.nodes.get(R.DEST + p)
                            if not (n is not None and n.kind == 'file' and bool(n.content) and all(c != 99 for c, o, l in n.content)):
                                out['problems'].append('%s, which version %d takes from the intact band %d, was not restored after the head of band %d was damaged'
                                                       % (p, b, sb, bnum))
            elif op == 'backup':
                if variant == 'multi':
                    hs = ex.env['hist_sizes']
                    tree = B.SourceTreeV([B.SrcFile('/', 'Dir', mtime=B.TimeV(1, 0), mode=0o755),
                                          B.SrcFile('/a', 'File', cls=1, size=hs['A'], mtime=B.TimeV(2, 0), mode=0o644),
                                          B.SrcFile('/m', 'File', cls=5, size=hs['M'] + hs['N'], mtime=B.TimeV(4, 0), mode=0o644)])
                else:
                    tree = B.SourceTreeV([B.SrcFile('/', 'Dir', mtime=B.TimeV(1, 0), mode=0o755),
                                          B.SrcFile('/a', 'File', cls=1, size=10, mtime=B.TimeV(2, 0), mode=0o644),
                                          B.SrcFile('/b', 'File', cls=2, size=12, mtime=B.TimeV(3, 0), mode=0o600)])
                r = B.run_backup(ex, ar, tree, B.backup_options(ex, 1000, 1 << 21, 0))
                out['result'] = r[0] if r[0] == 'ok' else 'Err:' + variant_name(ex, r[1])
                out['errors'] = [variant_name(ex, e) for e in ex.env['monitor'].errors][:4]
                if how in ('delete', 'empty'):
                    if r[0] != 'ok':
                        out['problems'].append('a new backup after %s was %s fails: %s' % (role, how, out['result']))
                    else:
                        nb = max(A.read_store(ex, st)[0])
                        probs = []
                        B.check_complete_band(ex, st, nb, tree, probs, 'new backup', True)
                        B.check_inv(ex, st, {nb: {f.path: f for f in tree.files}}, probs, 'new backup')
                        out['problems'] += [p for p in probs if ('b%04d' % nb) in p][:3]
            return out

        def on_path(ex, o):
            if o[0] == 'panic':
                t, hw = ex.env.get('damage', ('?', '?'))
                res['bad'].append({'kind': 'panic', 'op': op, 'target': BCrole(t), 'path': t, 'how': hw, 'msg': str(o[1])[:200], 'where': o[1].where,
                                   'variant': variant})
                return
            if o[0] != 'ok':
                return
            out = o[1]
            if out['problems']:
                res['bad'].append({'kind': 'problem', 'op': op, 'target': out['target'], 'path': out['path'], 'how': out['how'],
                                   'problems': out['problems'][:4], 'result': out.get('result'), 'errors': out.get('errors'),
                                   'quick': out.get('quick'), 'variant': variant, 'band': out.get('band'),
                                   'site': out.get('site') if all('does not create missing parent' in p_ for p_ in out['problems']) else None,
                                   'newest_closed': (B.model_values(ex.E.check()[1]) or {}).get('newest_closed'),
                                   'sizes': {k: v for k, v in (B.model_values(ex.E.check()[1]) or {}).items() if k.startswith('size')}})
            elif len(res['samples']) < 2 and out.get('harmful'):
                res['samples'].append({'op': op, 'outcome': {k: v for k, v in out.items() if k != 'problems'}})
        return h, on_path, res
    return mk_


def is_last_hunk(st, path):
    d = path.rsplit('/', 2)[0]
    others = [p for p in st.nodes if p.startswith(d + '/') and p.count('/') == path.count('/') and st.nodes[p].kind == 'file']
    return path == max(others + [path])


def BCrole(p):
    from ..backup_checks import path_role
    return path_role(p)
