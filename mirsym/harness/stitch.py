"""C08: Stitch::next / IndexHunkIter over symbolic archives, against the stitching rule written independently."""
import itertools

import z3

from ..interp import Explorer, Stats
from ..values import *  # noqa
from ..models import deref, some, none
from .. import env
from . import arch as A

# hunk layouts per band: list of (hunk number, entry count)
LAYOUTS_QUICK = [[], [(0, 1)], [(0, 2)], [(0, 1), (1, 1)], [(0, 2), (1, 1)], [(0, 0), (1, 1)], [(1, 1)]]
STATES = ['absent', 'nohead', 'noheadtail', 'open', 'closed']


def build(ex, shape):
    """shape: list per band of (state, layout).  Returns (store, archive, table) where table[b] = list of hunks,
    each a list of (tag, char) and entries are IndexEntry values with apath '/'+char."""
    st, ar = A.new_archive(ex)
    table = {}
    for b, (state, layout) in enumerate(shape):
        if state == 'absent':
            continue
        st.put_dir(A.band_name(b))
        if state in ('nohead', 'noheadtail'):
            # a directory (e.g. half-deleted band) without BANDHEAD; may still hold hunks and a tail
            st.put_dir(A.band_name(b) + '/i')
        else:
            A.put_head(ex, st, b)
        prev = None
        hunks = []
        for (hn, cnt) in layout:
            ents, meta = [], []
            for k in range(cnt):
                c = ex.fresh_int('p%d_%d_%d' % (b, hn, k), 0x30, 0x7a)
                if prev is not None:
                    ex.assume(c > prev)
                prev = c
                tag = b * 100 + hn * 10 + k
                ents.append(A.mk_entry(ex, SymStr([ord('/'), c], 2), 'Symlink', tag, target='t'))
                meta.append((tag, c))
            A.put_hunk(ex, st, b, hn, ents)
            hunks.append(meta)
        table[b] = (state, hunks)
        if state in ('closed', 'noheadtail'):
            A.put_tail(ex, st, b, len(layout))
    st.mode = 'run'
    return st, ar, table


def oracle(ex, table, n, nbands):
    """The stitching rule, written from the property statement.  Comparisons fork via ex.branch."""
    out = []
    last = None
    b = n
    while True:
        state, hunks = table.get(b, ('absent', []))
        if state in ('open', 'closed'):
            flat = [e for h in hunks for e in h]
            for (tag, c) in flat:
                if last is None or ex.branch(c > last, 'oracle gt'):
                    out.append(tag)
            if flat:
                m = flat[-1][1]
                if last is None or ex.branch(m > last, 'oracle max'):
                    last = m
        if state == 'closed':
            break
        # nearest earlier band that exists (has a head)
        nb = None
        for cand in range(b - 1, -1, -1):
            if table.get(cand, ('absent', []))[0] in ('open', 'closed'):
                nb = cand
                break
        if nb is None:
            break
        b = nb
    return out


def chain(table, n):
    """Bands the stitching rule reads, newest first."""
    out, b = [], n
    while True:
        state = table.get(b, ('absent', []))[0]
        if state in ('open', 'closed'):
            out.append(b)
        if state == 'closed':
            return out
        nb = None
        for cand in range(b - 1, -1, -1):
            if table.get(cand, ('absent', []))[0] in ('open', 'closed'):
                nb = cand
                break
        if nb is None:
            return out
        b = nb


def make_harness(prog, shape, n, max_yield=40):
    new = A.fn_by(prog, 'Stitch', None, 'new')
    nxt = A.fn_by(prog, 'Stitch', None, 'next')

    def h(ex):
        st, ar, table = build(ex, shape)
        band_id = Agg('bandid::BandId', None, [n])
        stitch = ex.call_fn(new, [Ref([ar], 0), band_id, A.apath_of('/'), A.exclude_nothing(ex), A.monitor_arc(ex)])
        cell = [stitch]
        got = []
        for _ in range(max_yield):
            r = A.run_async(ex, nxt, [Ref(cell, 0, True)])
            if r.variant == 0:
                break
            e = r.fields[0]
            got.append(env.field(ex, e, 'index::entry::IndexEntry', 'mtime'))
        else:
            return ('nonterminating', got, None, st, table)
        want = oracle(ex, table, n, len(shape))
        nerr = len(ex.env['monitor'].errors)
        want_err = 0 if table.get(n, ('absent', []))[0] in ('open', 'closed') else 1
        # hunks are numbered from zero without gaps; a band on the chain whose numbering has a gap is damaged and must be reported once
        for b in chain(table, n):
            nums = [hn for (hn, _cnt) in shape[b][1]]
            if nums != list(range(len(nums))):
                want_err += 1
        # a headless band that still has index hunks (its head was lost) and is stepped over on the way down is reported once
        stt = lambda x: table.get(x, ('absent', []))[0]
        b = n
        while stt(b) not in ('closed', 'noheadtail'):       # (a tail without a head still ends the walk)
            nb = None
            for cand in range(b - 1, -1, -1):
                if stt(cand) in ('open', 'closed'):
                    nb = cand
                    break
                if stt(cand) in ('nohead', 'noheadtail') and shape[cand][1]:
                    want_err += 1
            if nb is None:
                break
            b = nb
        if nerr != want_err:
            got = got + ['errors=%d' % nerr]
            want = want + ['errors=%d' % want_err]
        return ('done', got, want, st, table)
    return h


def describe(ex, shape, n, table, model):
    d = {'list_band': n, 'bands': []}
    for b, (state, layout) in enumerate(shape):
        hunks = []
        if b in table:
            for (hn, _cnt), meta in zip(layout, table[b][1]):
                hunks.append({'hunk': hn, 'entries': [{'tag': tag, 'path': '/' + chr(model.eval(zint(c), model_completion=True).as_long())}
                                                     for tag, c in meta]})
        d['bands'].append({'band': b, 'state': state, 'hunks': hunks})
    return d


def shapes(nbands, layouts, tier):
    per_band = [('absent', [])] + [('nohead', l) for l in layouts[:2]] + [(s, l) for s in ('open', 'closed') for l in layouts]
    for combo in itertools.product(per_band, repeat=nbands):
        # the listed band must be openable for the interesting cases; others are covered by a smaller sweep
        yield list(combo)


def run_shape(args):
    """Worker: explore one shape for every listed band n.  Returns a summary dict (picklable)."""
    prog, shape, tier = args
    res = {'paths': 0, 'queries': 0, 'solver_s': 0.0, 'bad': [], 'inconclusive': [], 'functions': set(), 'models': set(),
           'samples': []}
    nb = len(shape)
    for n in range(nb):
        if shape[n][0] == 'absent':
            continue
        h = make_harness(prog, shape, n)
        E = Explorer(prog, Stats(), max_paths=20000, step_budget=200000)

        def on_path(ex, out, n=n):
            if out[0] == 'panic':
                r, m = ex.E.check()
                res['bad'].append({'kind': 'panic', 'msg': str(out[1]), 'where': out[1].where, 'shape': repr(shape), 'n': n})
                return
            if out[0] != 'ok':
                return
            status, got, want, st, table = out[1]
            errs = ex.env['monitor'].errors
            if status == 'nonterminating':
                r, m = ex.E.check()
                res['bad'].append({'kind': 'nonterminating', 'scenario': describe(ex, shape, n, table, m), 'got': got})
                return
            if got != want or st.violations:
                r, m = ex.E.check()
                res['bad'].append({'kind': 'wrong-listing', 'scenario': describe(ex, shape, n, table, m),
                                   'got': got, 'want': want, 'store_violations': st.violations})
            elif not res['samples'] and len(got) >= 3:
                r, m = ex.E.check()
                if m is not None:
                    res['samples'].append({'scenario': describe(ex, shape, n, table, m), 'listing': got})
        E.run_all(h, on_path)
        res['paths'] += E.stats.paths
        res['nontrivial'] = res.get('nontrivial', 0) + E.stats.nontrivial
        res['queries'] += E.stats.queries
        res['solver_s'] += E.stats.solver_s
        res['functions'] |= E.stats.functions
        res['models'] |= E.stats.models_used
        res['inconclusive'] += E.inconclusive[:3]
    return res


# ---------------------------------------------------------------------------- sweep
_PROG = [None]


def _worker(args):
    shape, tier = args
    try:
        return shape, run_top(_PROG[0], shape)
    except Exception as e:      # never let a worker failure look like a pass
        return shape, {'paths': 0, 'queries': 0, 'solver_s': 0.0, 'bad': [], 'inconclusive': ['worker: %r' % (e,)],
                       'functions': set(), 'models': set(), 'samples': []}


def run_top(prog, shape):
    """Explore listing of the top band of `shape` only (bands above the listed one are irrelevant)."""
    full = run_shape_n(prog, shape, len(shape) - 1)
    return full


def run_shape_n(prog, shape, n):
    saved = shape
    res = {'paths': 0, 'queries': 0, 'solver_s': 0.0, 'bad': [], 'inconclusive': [], 'functions': set(), 'models': set(),
           'samples': []}
    h = make_harness(prog, shape, n)
    E = Explorer(prog, Stats(), max_paths=20000, step_budget=200000)

    def on_path(ex, out):
        if out[0] == 'panic':
            res['bad'].append({'kind': 'panic', 'msg': str(out[1]), 'where': out[1].where, 'shape': repr(shape), 'n': n})
            return
        if out[0] != 'ok':
            return
        status, got, want, st, table = out[1]
        if status == 'nonterminating':
            r, m = ex.E.check()
            res['bad'].append({'kind': 'nonterminating', 'scenario': describe(ex, shape, n, table, m), 'got': got})
            return
        if got != want or st.violations:
            r, m = ex.E.check()
            res['bad'].append({'kind': 'wrong-listing', 'scenario': describe(ex, shape, n, table, m),
                               'got': got, 'want': want, 'store_violations': st.violations})
        elif not res['samples'] and len(got) >= 3:
            r, m = ex.E.check()
            if m is not None:
                res['samples'].append({'scenario': describe(ex, shape, n, table, m), 'listing': got})
    E.run_all(h, on_path)
    res['paths'] += E.stats.paths
    res['nontrivial'] = res.get('nontrivial', 0) + E.stats.nontrivial
    res['queries'] += E.stats.queries
    res['solver_s'] += E.stats.solver_s
    res['functions'] |= E.stats.functions
    res['models'] |= E.stats.models_used
    res['inconclusive'] += E.inconclusive[:3]
    return res


def gen_shapes(nbands, layouts):
    """All shapes whose top band exists (as a directory); bands below a closed band are irrelevant and fixed absent."""
    lower = [('absent', []), ('nohead', []), ('nohead', [(0, 1)]), ('noheadtail', []), ('noheadtail', [(0, 1)])] + \
        [(s, l) for s in ('open', 'closed') for l in layouts]
    top = [(s, l) for s in ('open', 'closed') for l in layouts]    # a headless band cannot be selected through the API

    def rec(prefix, k):
        # prefix holds bands k+1..top (in reverse); choose band k
        if k < 0:
            yield list(reversed(prefix))
            return
        if any(s == 'closed' for s, _ in prefix):
            yield from rec(prefix + [('absent', [])], k - 1)
            return
        for opt in (top if not prefix else lower):
            yield from rec(prefix + [opt], k - 1)
    yield from rec([], nbands - 1)


def sweep(prog, nbands, layouts, tier, deadline, procs=16):
    import multiprocessing as mp
    import time
    _PROG[0] = prog
    shapes_l = list(gen_shapes(nbands, layouts))
    # "irrelevant" is itself part of the rule: a few shapes keep a populated band BELOW a finished one (whatever the finished band
    # holds - nothing, one hunk - the listing must stop there and never reach the older band)
    if nbands >= 3:
        for mid in ([], [(0, 1)]):
            for top_state in ('open',):
                for top_l in ([], [(0, 1)]):
                    sh = [('closed', [(0, 2)])] + [('absent', [])] * (nbands - 3) + [('closed', mid), (top_state, top_l)]
                    if sh not in shapes_l:
                        shapes_l.append(sh)
    tot = {'paths': 0, 'queries': 0, 'solver_s': 0.0, 'nontrivial': 0, 'bad': [], 'inconclusive': [], 'functions': set(), 'models': set(),
           'samples': [], 'shapes': len(shapes_l), 'shapes_done': 0}
    ctx = mp.get_context('fork')
    with ctx.Pool(procs) as pool:
        for shape, r in pool.imap_unordered(_worker, [(s, tier) for s in shapes_l], chunksize=4):
            tot['shapes_done'] += 1
            for k in ('paths', 'queries', 'solver_s', 'nontrivial'):
                tot[k] += r.get(k, 0)
            tot['bad'] += r['bad']
            tot['inconclusive'] += r['inconclusive']
            tot['functions'] |= r['functions']
            tot['models'] |= r['models']
            if len(tot['samples']) < 4:
                tot['samples'] += r['samples']
            if deadline and time.time() > deadline:
                tot['inconclusive'].append('time budget: %d of %d shapes done' % (tot['shapes_done'], len(shapes_l)))
                pool.terminate()
                break
            if len(tot['bad']) >= 8:
                pool.terminate()
                break
    return tot


# ---------------------------------------------------------------------------- subtree filter (C12 clause 2)
from . import apath as AP


def name_char(ex, label):
    c = ex.fresh_int(label, 0x2d, 0x7a)      # '-' sorts below '/', digits and letters above
    ex.assume(c != 0x2f)
    ex.assume(c != 0x2e)                     # a component "." is not a valid apath (the reader rejects such an index entry)
    return c


def shaped_path(ex, label):
    """'/c' or '/d/c' with symbolic name characters; the slash positions are fixed per form (the form is a fork)."""
    if ex.branch(ex.fresh_bool(label + '_deep'), 'path form'):
        return SymStr([ord('/'), name_char(ex, label + 'd'), ord('/'), name_char(ex, label + 'c')], 4)
    c = name_char(ex, label + 'c')
    return SymStr([ord('/'), c], 2)


def build_deep(ex, shape, N):
    st, ar = A.new_archive(ex)
    table = {}
    for b, (state, layout) in enumerate(shape):
        if state == 'absent':
            continue
        st.put_dir(A.band_name(b))
        A.put_head(ex, st, b)
        prev = None
        hunks = []
        for (hn, cnt) in layout:
            ents, meta = [], []
            for k in range(cnt):
                s = shaped_path(ex, 'p%d_%d_%d' % (b, hn, k))
                if prev is not None:
                    ex.assume(zint(AP.cmp_oracle(prev, s)) < 0)
                prev = s
                tag = b * 100 + hn * 10 + k
                ents.append(A.mk_entry(ex, s, 'Symlink', tag, target='t'))
                meta.append((tag, s))
            A.put_hunk(ex, st, b, hn, ents)
            hunks.append(meta)
        table[b] = (state, hunks)
        if state == 'closed':
            A.put_tail(ex, st, b, len(layout))
    st.mode = 'run'
    return st, ar, table


def oracle_deep(ex, table, n, subtree):
    out = []
    last = None
    b = n
    while True:
        state, hunks = table.get(b, ('absent', []))
        if state in ('open', 'closed'):
            flat = [e for h in hunks for e in h]
            for (tag, s) in flat:
                if last is None or ex.branch(zint(AP.cmp_oracle(s, last)) > 0, 'oracle gt'):
                    if ex.branch(AP.prefix_oracle(subtree, s), 'oracle in subtree'):
                        out.append(tag)
            if flat:
                m = flat[-1][1]
                if last is None or ex.branch(zint(AP.cmp_oracle(m, last)) > 0, 'oracle max'):
                    last = m
        if state == 'closed':
            break
        nb = None
        for cand in range(b - 1, -1, -1):
            if table.get(cand, ('absent', []))[0] in ('open', 'closed'):
                nb = cand
                break
        if nb is None:
            break
        b = nb
    return out


def make_deep(prog, shape):
    n = len(shape) - 1
    new = A.fn_by(prog, 'Stitch', None, 'new')
    nxt = A.fn_by(prog, 'Stitch', None, 'next')

    def make():
        res = {'bad': [], 'samples': []}

        def h(ex):
            st, ar, table = build_deep(ex, shape, 4)
            if ex.branch(ex.fresh_bool('sub_is_root'), 'subtree form'):
                sub = '/'
            else:
                sub = SymStr([ord('/'), name_char(ex, 'sub')], 2)
            stitch = ex.call_fn(new, [Ref([ar], 0), Agg('bandid::BandId', None, [n]), A.apath_of(sub),
                                      A.exclude_nothing(ex), A.monitor_arc(ex)])
            cell = [stitch]
            got = []
            for _ in range(30):
                r = A.run_async(ex, nxt, [Ref(cell, 0, True)])
                if r.variant == 0:
                    break
                got.append(env.field(ex, r.fields[0], 'index::entry::IndexEntry', 'mtime'))
            else:
                return ('nonterminating', got, None, table, sub)
            want = oracle_deep(ex, table, n, sub)
            return ('done', got, want, table, sub)

        def desc(m, table, sub):
            d = {'list_band': n, 'subtree': sub if isinstance(sub, str) else AP.txt(AP.show(m, sub)), 'bands': []}
            for b, (state, layout) in enumerate(shape):
                hunks = []
                if b in table:
                    for (hn, _c), meta in zip(layout, table[b][1]):
                        hunks.append({'hunk': hn, 'entries': [{'tag': t, 'path': AP.txt(AP.show(m, s))} for t, s in meta]})
                d['bands'].append({'band': b, 'state': state, 'hunks': hunks})
            return d

        def on_path(ex, out):
            if out[0] == 'panic':
                res['bad'].append({'kind': 'panic', 'msg': str(out[1]), 'where': out[1].where})
                return
            if out[0] != 'ok':
                return
            status, got, want, table, sub = out[1]
            if status != 'done' or got != want:
                if len(res['bad']) < 3:
                    r, m = ex.E.check()
                    res['bad'].append({'kind': 'wrong-subtree-listing' if status == 'done' else 'nonterminating',
                                       'scenario': desc(m, table, sub), 'got': got, 'want': want})
            elif not res['samples'] and len(got) >= 2:
                r, m = ex.E.check()
                res['samples'].append({'scenario': desc(m, table, sub), 'listing': got})
        return h, on_path, res
    return make


def sweep_deep(prog, shapes_l, deadline, procs=16):
    from ..interp import parallel_explore
    tot = {'paths': 0, 'queries': 0, 'solver_s': 0.0, 'nontrivial': 0, 'bad': [], 'inconclusive': [], 'functions': set(), 'models': set(),
           'samples': [], 'shapes': len(shapes_l), 'shapes_done': 0}
    for shape in shapes_l:
        res, st, fns, mods, inc = parallel_explore(prog, make_deep(prog, shape), depth=7, procs=procs, deadline=deadline,
                                                   max_paths=100000, step_budget=400000)
        tot['shapes_done'] += 1
        tot['paths'] += st['paths']
        tot['nontrivial'] += st.get('nontrivial', 0)
        tot['queries'] += st['queries']
        tot['solver_s'] += st['solver_s']
        tot['bad'] += res['bad']
        tot['samples'] += res['samples'][:1]
        tot['functions'] |= fns
        tot['models'] |= mods
        tot['inconclusive'] += inc
        if tot['bad']:
            break
    return tot
