"""C11 (walk clause): the real source::Iter::{new, next, visit_next_directory} executed from MIR over a directory model.

The directory tree has a fixed shape (who is a directory, how many children) but every name is a symbolic string of one or two
code points (any scalar value except '/' and NUL, not '.' / '..', distinct inside a directory) and read_dir hands the children
over in the order of the model, which - the names being unconstrained - is every possible readdir order.  The oracle is the
documented order written independently in harness/apath.py (order_key): the emitted paths must be strictly increasing under
it and must be exactly the paths of the tree."""
import re

import z3

from ..values import *  # noqa
from .. import models as M
from ..models import deref, some, none, ok, err
from ..env import mk, enum_val
from . import arch as A
from . import apath as AP
from . import backup as B

SL, DOT = ord('/'), ord('.')


class Node:
    def __init__(self, name, kind, kids=None):
        self.name, self.kind, self.kids = name, kind, kids or []
        self.apath = None
        self.link_to = None       # a Symlink whose target is a directory of the tree (its first sibling directory)


class DirPathV(Model):
    """PathBuf produced by Apath::below: remembers which apath it stands for."""
    ty = 'PathBuf'

    def __init__(self, ap):
        self.ap = ap

    def clone_model(self):
        return self


class ChildPathV(Model):
    """dir_path.join(name): the path of a child, by parent apath and name."""
    ty = 'PathBuf'

    def __init__(self, parent_ap, name):
        self.parent_ap, self.name = parent_ap, name

    def clone_model(self):
        return self


class MetaV(Model):
    ty = 'Metadata'

    def __init__(self, node):
        self.node = node

    def clone_model(self):
        return self


class DirEntryV(Model):
    ty = 'DirEntry'

    def __init__(self, node):
        self.node = node


class ReadDirV(Model):
    ty = 'ReadDir'

    def __init__(self, kids):
        self.kids, self.pos = list(kids), 0


def sym_name(ex, label, n):
    cs = [ex.fresh_int(label + '_c%d' % i) for i in range(n)]
    for c in cs:
        ex.assume(z3.And(c >= 1, c <= 0x10FFFF, z3.Or(c < 0xD800, c > 0xDFFF), c != SL))
    if n == 1:
        ex.assume(cs[0] != DOT)
    if n == 2:
        ex.assume(z3.Not(z3.And(cs[0] == DOT, cs[1] == DOT)))
    return SymStr(cs, n)


def same_chars(a, b):
    a, b = as_symstr(a), as_symstr(b)
    if not (isinstance(a.n, int) and isinstance(b.n, int)) or a.n != b.n:
        return False
    for x, y in zip(a.chars[:a.n], b.chars[:b.n]):
        if isinstance(x, int) and isinstance(y, int):
            if x != y:
                return False
        elif is_sym(x) and is_sym(y):
            if not x.eq(y):
                return False
        else:
            return False
    return True


def build_tree(ex, shape, lens):
    """shape: list describing root children: 'F' | 'S' | ('D', [children...]) recursively; lens: name lengths cycle."""
    counter = [0]

    def mk_node(spec, label):
        n = lens[counter[0] % len(lens)]
        counter[0] += 1
        name = sym_name(ex, label, n)
        if isinstance(spec, tuple):
            node = Node(name, 'Dir', [])
            for i, s in enumerate(spec[1]):
                node.kids.append(mk_node(s, label + '_%d' % i))
            distinct(ex, node.kids)
            return node
        return Node(name, {'F': 'File', 'S': 'Symlink', 'L': 'Symlink'}[spec])

    def link_up(node, specs):
        # 'L': a symlink that points at the first directory among its siblings
        dirs = [k for k in node.kids if k.kind == 'Dir']
        for k, sp in zip(node.kids, specs):
            if sp == 'L' and dirs:
                k.link_to = dirs[0]
            if isinstance(sp, tuple):
                link_up(k, sp[1])
    root = Node(None, 'Dir', [mk_node(s, 'n%d' % i) for i, s in enumerate(shape)])
    distinct(ex, root.kids)
    link_up(root, shape)
    return root


def distinct(ex, kids):
    for i in range(len(kids)):
        for j in range(i + 1, len(kids)):
            ex.assume(z3.Not(zbool(str_eq(kids[i].name, kids[j].name))))


def expected_paths(root):
    """[(apath SymStr, node)] for every node, computed independently of the implementation."""
    out = []

    def rec(node, prefix):
        for k in node.kids:
            ap = str_concat(prefix, k.name) if prefix_is_root(prefix) else str_concat(str_concat(prefix, SymStr.lit('/')), k.name)
            out.append((ap, k))
            if k.kind == 'Dir':
                rec(k, ap)
    out.append((SymStr.lit('/'), root))
    rec(root, SymStr.lit('/'))
    return out


def prefix_is_root(p):
    return isinstance(p.n, int) and p.n == 1


def install_walk(ex, root, expected):
    I = ex.intercepts

    def add(p, f):
        I.insert(0, (re.compile('(?:' + p + r')$'), f))

    # what the file system shows THROUGH a symlink to a directory: the target's descendants under the link's path
    aliases = []

    def alias_rec(prefix, target):
        for k in target.kids:
            ap = str_concat(str_concat(prefix, SymStr.lit('/')), k.name)
            aliases.append((ap, k))
            if k.kind == 'Dir':
                alias_rec(ap, k)
    for e, n in expected:
        if n.link_to is not None:
            alias_rec(e, n.link_to)

    def node_of(ap):
        s = deref(ap)
        s = s.fields[0] if isinstance(s, Agg) else s
        for e, n in expected + aliases:
            if same_chars(e, s):
                return n
        raise Unsupported('walk: path %r is not a node of the model' % (s,))

    def follow(n):
        return n.link_to if (n.kind == 'Symlink' and n.link_to is not None) else n
    add(r'(?:apath::)?Apath::below::<.*>', lambda ex, c, a: DirPathV(deref(a[0])))

    def symlink_metadata(ex, c, a):
        p = deref(a[0])
        if isinstance(p, ChildPathV):
            return ok(MetaV(resolve_path(p)))
        if not isinstance(p, DirPathV):
            return NotImplemented
        return ok(MetaV(node_of(p.ap)))
    add(r'(?:std::fs::)?symlink_metadata::<.*>', symlink_metadata)

    def read_dir(ex, c, a):
        p = deref(a[0])
        if not isinstance(p, DirPathV):
            return NotImplemented
        n = follow(node_of(p.ap))       # opendir follows a symlink
        if n.kind != 'Dir':
            return err(Opaque('io::Error'))
        return ok(ReadDirV(n.kids))
    add(r'(?:std::fs::)?read_dir::<.*>', read_dir)

    def rd_next(ex, c, a):
        rd = deref(a[0])
        if rd.pos >= len(rd.kids):
            return none()
        rd.pos += 1
        return some(ok(DirEntryV(rd.kids[rd.pos - 1])))
    add(r'<(?:std::fs::)?ReadDir as Iterator>::next', rd_next)
    add(r'<(?:std::fs::)?ReadDir as IntoIterator>::into_iter', lambda ex, c, a: a[0])
    add(r'(?:std::fs::)?DirEntry::file_name', lambda ex, c, a: deref(a[0]).node.name)
    add(r'(?:std::ffi::)?(?:OsString|OsStr)::to_str|(?:std::ffi::)?os_str::<impl .*>::to_str', lambda ex, c, a: some(deref(a[0])))
    add(r'<(?:std::ffi::)?OsString as Deref>::deref', lambda ex, c, a: a[0])
    add(r'(?:std::fs::)?DirEntry::file_type', lambda ex, c, a: ok(MetaV(deref(a[0]).node)))
    add(r'(?:std::fs::)?DirEntry::metadata', lambda ex, c, a: ok(MetaV(deref(a[0]).node)))
    add(r'(?:std::fs::)?DirEntry::path', lambda ex, c, a: Opaque('PathBuf'))
    add(r'(?:std::fs::)?FileType::is_dir|(?:std::fs::)?Metadata::is_dir', lambda ex, c, a: deref(a[0]).node.kind == 'Dir')
    add(r'(?:cachedir::)?is_tagged::<.*>', lambda ex, c, a: ok(False))
    def path_join(ex, c, a):
        p = deref(a[0])
        if not isinstance(p, DirPathV):
            return NotImplemented
        nm = deref(a[1])
        if isinstance(nm, (str, SymStr)):
            return ChildPathV(p.ap, nm)
        return Opaque('PathBuf')
    add(r'(?:std::path::)?(?:Path|PathBuf)::join::<.*>', path_join)
    add(r'<(?:std::path::)?PathBuf as Deref>::deref', lambda ex, c, a: a[0] if isinstance(deref(a[0]), (DirPathV, Opaque, ChildPathV)) else NotImplemented)
    add(r'(?:std::path::)?Path::to_path_buf', lambda ex, c, a: Opaque('PathBuf') if isinstance(deref(a[0]), (Opaque, DirPathV)) else
        deref(a[0]) if isinstance(deref(a[0]), ChildPathV) else NotImplemented)

    def resolve_path(p):
        if isinstance(p, DirPathV):
            return node_of(p.ap)
        if isinstance(p, ChildPathV):
            parent = follow(node_of(p.parent_ap))
            for k in parent.kids:
                if same_chars(k.name, p.name):
                    return k
            raise Unsupported('walk: child path names no node of the model')
        return None

    def path_kind(which):
        # Path::is_dir / is_file / exists follow symlinks (stat); Path::is_symlink does not (lstat)
        def f(ex, c, a):
            n = resolve_path(deref(a[0]))
            if n is None:
                return NotImplemented
            if which == 'is_symlink':
                return n.kind == 'Symlink'
            t = follow(n)
            if t.kind == 'Symlink':
                return False                   # a link whose target is not in the tree: dangling
            return {'is_dir': t.kind == 'Dir', 'is_file': t.kind == 'File', 'exists': True}[which]
        return f
    for which in ('is_dir', 'is_file', 'exists', 'is_symlink'):
        add(r'(?:std::path::)?(?:Path|PathBuf)::' + which, path_kind(which))

    def fs_metadata(ex, c, a):
        n = resolve_path(deref(a[0]))
        if n is None:
            return NotImplemented
        t = follow(n)
        if t.kind == 'Symlink':
            return err(Opaque('io::Error'))
        return ok(MetaV(t))
    add(r'(?:std::fs::)?metadata::<.*>', fs_metadata)

    def entry_from_md(ex, c, a):
        ap, md = a[0], deref(a[2])
        node = md.node
        f = B.SrcFile(ap.fields[0], node.kind, cls=1, size=3, mtime=B.TimeV(5, 0), mode=0o644, target='t' if node.kind == 'Symlink' else None)
        return ok(B.source_entry_value(ex, f))
    add(r'(?:source::)?entry_from_fs_metadata', entry_from_md)


def make_walk(prog, shape, lens):
    def mk_():
        res = {'bad': [], 'samples': []}

        def h(ex):
            A.install_misc(ex, None)
            B.install_time(ex)
            root = build_tree(ex, shape, lens)
            expected = expected_paths(root)
            install_walk(ex, root, expected)
            new = A.fn_by(prog, 'Iter', None, 'new')
            nxt = A.fn_by(prog, 'Iter', 'Iterator', 'next')
            r = ex.call_fn(new, [Ref([Opaque('rootpath')], 0), A.apath_of('/'), A.ExcludeV()])
            if r.variant != 0:
                raise Unsupported('Iter::new failed')
            it = r.fields[0]
            got = []
            for _ in range(2 * len(expected) + 3):
                o = ex.call_fn(nxt, [Ref([it], 0)])
                if o.variant == 0:
                    break
                e = o.fields[0]
                got.append(as_symstr(field_of(ex, e, 'apath').fields[0]))
            else:
                return 'nonterminating', got, expected
            return 'done', got, expected

        def on_path(ex, out):
            if out[0] == 'panic':
                res['bad'].append({'kind': 'panic', 'msg': str(out[1])[:200], 'where': out[1].where})
                return
            if out[0] != 'ok':
                return
            status, got, expected = out[1]
            problems = []
            if status != 'done':
                problems.append('the walk does not terminate')
            # every node exactly once
            missing = [e for e, n in expected if not any(same_chars(e, g) for g in got)]
            extra = [g for g in got if not any(same_chars(e, g) for e, n in expected)]
            if missing or extra or len(got) != len(expected):
                problems.append('the walk emits %d paths for a tree of %d (missing %d, unexpected %d)' % (len(got), len(expected), len(missing), len(extra)))
            # strictly increasing under the documented order
            model = None
            for i in range(len(got) - 1):
                lt = AP.cmp_oracle(got[i], got[i + 1]) == -1 if not is_sym(AP.cmp_oracle(got[i], got[i + 1])) else None
                c = AP.cmp_oracle(got[i], got[i + 1])
                holds, m = ex.check_holds(zint(c) == -1)
                if not holds:
                    model = m
                    problems.append('emitted path %d is not below path %d in the documented order' % (i, i + 1))
                    break
            if problems:
                m = model or ex.E.check()[1]
                names = [AP.txt(AP.show(m, g)) for g in got] if m is not None else []
                tree = [AP.txt(AP.show(m, e)) + ('/' if n.kind == 'Dir' and AP.show(m, e) != [SL] else ('@' + (AP.txt(AP.show(m, n.link_to.name)) if n.link_to is not None else '')) if n.kind == 'Symlink' else '')
                        for e, n in expected] if m is not None else []
                res['bad'].append({'kind': 'walk-order', 'problems': problems, 'emitted': names, 'tree': tree, 'shape': repr(shape)})
            elif len(res['samples']) < 1:
                m = ex.E.check()[1]
                if m is not None:
                    res['samples'].append({'shape': repr(shape), 'emitted': [AP.txt(AP.show(m, g)) for g in got]})
        return h, on_path, res
    return mk_


def field_of(ex, e, name):
    from ..env import field
    return field(ex, e, 'source::entry::Entry', name)
