"""C07 (storage layer): the local transport's Protocol::write executed from MIR over a small file model.

Pre-state of the target (absent / zero-length leftover / non-empty file), the write mode and whether the physical write
fails half-way are solver choices.  tokio::fs is modelled by what the std functions underneath are documented to do
(fs::write = create-or-truncate then write; OpenOptions::open honours create_new / create / truncate; remove_file)."""
import re

import z3

from ..values import *  # noqa
from .. import models as M
from ..models import deref, some, none, ok, err
from ..env import mk, enum_val, variant_name
from . import arch as A
from .restoreh import IoErrorV, IoKind, kind_name
from ..srcinfo import STD_ENUMS

ROOT = '/arch'
TARGET = ROOT + '/f'
OTHER = ROOT + '/other'


class OpenOpts(Model):
    ty = 'OpenOptions'

    def __init__(self):
        self.write = self.create_new = self.create = self.truncate = self.append = False

    def clone_model(self):
        o = OpenOpts()
        o.__dict__.update(self.__dict__)
        return o


class FileH(Model):
    ty = 'File'

    def __init__(self, path):
        self.path = path


class MetaL(Model):
    ty = 'Metadata'

    def __init__(self, node):
        self.node = node


def install(ex, fs, flaky):
    """fs: dict path -> ('file', content) | ('dir',); content: list of segments, [] = empty.  flaky: the physical write may fail half-way."""
    I = ex.intercepts

    def add(p, f):
        I.insert(0, (re.compile('(?:' + p + r')$'), f))

    def pstr(v):
        s = str_simplify(M.path_str(v))
        if not isinstance(s, str):
            raise Unsupported('symbolic path in local transport harness')
        return s

    def ioerr(kind):
        return IoErrorV(kind)

    def fut(f):
        return M.ReadyFuture(f)

    def data_of(v):
        v = deref(v)
        if isinstance(v, ContentV):
            return v
        raise Unsupported('write of %r' % (v,))

    def physical_write(path, content, truncate=True):
        """Returns None or an io error; models a write that may stop half-way."""
        if flaky and ex.branch(ex.fresh_bool('write_fails'), 'physical write fails?'):
            fs[path] = ('file', ['partial'])
            return ioerr('Other')
        fs[path] = ('file', [content.cls])
        return None

    def do_open(o, path):
        n = fs.get(path)
        par = fs.get(path.rsplit('/', 1)[0])
        if par is None or par[0] != 'dir':
            return err(ioerr('NotFound'))
        if n is not None and n[0] == 'dir':
            return err(ioerr('IsADirectory'))
        if o.create_new:
            if n is not None:
                return err(ioerr('AlreadyExists'))
            fs[path] = ('file', [])
        elif n is None:
            if not o.create:
                return err(ioerr('NotFound'))
            fs[path] = ('file', [])
        if o.truncate and o.write:
            fs[path] = ('file', [])
        return ok(FileH(path))

    add(r'(?:tokio::fs::|std::fs::)?OpenOptions::new', lambda ex, c, a: OpenOpts())

    def setter(ex, c, a):
        o = deref(a[0])
        setattr(o, c.rsplit('::', 1)[1], bool(a[1]))
        return a[0]
    add(r'(?:tokio::fs::|std::fs::)?OpenOptions::(write|create_new|create|truncate|append)', setter)
    add(r'(?:tokio::fs::)?OpenOptions::open::<.*>', lambda ex, c, a: fut(lambda: do_open(deref(a[0]), pstr(a[1]))))
    add(r'(?:std::fs::)?OpenOptions::open::<.*>', lambda ex, c, a: do_open(deref(a[0]), pstr(a[1])))

    def fs_write(path, content):
        n = fs.get(path)
        par = fs.get(path.rsplit('/', 1)[0])
        if par is None or par[0] != 'dir':
            return err(ioerr('NotFound'))
        if n is not None and n[0] == 'dir':
            return err(ioerr('IsADirectory'))
        e = physical_write(path, content)
        return err(e) if e else ok(UNIT)
    add(r'(?:tokio::fs::)?write::<.*>', lambda ex, c, a: fut(lambda: fs_write(pstr(a[0]), data_of(a[1]))))
    add(r'(?:std::fs::)?write::<.*>', lambda ex, c, a: fs_write(pstr(a[0]), data_of(a[1])))

    def fs_read(path):
        n = fs.get(path)
        if n is None:
            return err(ioerr('NotFound'))
        if n[0] == 'dir':
            return err(ioerr('IsADirectory'))
        c = n[1]
        if not c:
            return ok(ContentV('new', 0))
        if c == ['new']:
            return ok(ContentV('new'))
        if c == ['new-prefix']:
            return ok(ContentV('new', 4))
        return ok(ContentV(c[0]))
    add(r'(?:tokio::fs::)?read::<.*>', lambda ex, c, a: fut(lambda: fs_read(pstr(a[0]))))
    add(r'(?:std::fs::)?read::<.*>', lambda ex, c, a: fs_read(pstr(a[0])))

    def content_starts_with(ex, c, a):
        x, y = deref(a[0]), deref(a[1])
        if not (isinstance(x, ContentV) and isinstance(y, ContentV)):
            return NotImplemented
        if y.length() == 0:
            return True
        return x.cls == y.cls and y.length() <= x.length()
    add(r'(?:core|std|alloc)::slice::<impl \[u8\]>::starts_with', content_starts_with)
    add(r'<(?:std::vec::)?Vec<u8> as (?:std::ops::)?Deref>::deref', lambda ex, c, a: a[0] if isinstance(deref(a[0]), ContentV) else NotImplemented)

    def content_eq(ex, c, a):
        x, y = deref(a[0]), deref(a[1])
        if not (isinstance(x, ContentV) and isinstance(y, ContentV)):
            return NotImplemented
        r = x.cls == y.cls and x.length() == y.length() or (x.length() == 0 and y.length() == 0)
        return r if c.endswith('eq') else not r
    add(r'<.* as PartialEq<.*>>::(eq|ne)|<\[u8\] as PartialEq>::(eq|ne)', content_eq)
    add(r'(?:core|std|alloc)::slice::<impl \[u8\]>::(len|is_empty)|(?:std::vec::)?Vec::<u8>::(len|is_empty)',
        lambda ex, c, a: (deref(a[0]).length() if c.endswith('len') else deref(a[0]).length() == 0) if isinstance(deref(a[0]), ContentV) else NotImplemented)

    def remove_file(path):
        n = fs.get(path)
        if n is None:
            return err(ioerr('NotFound'))
        if n[0] == 'dir':
            return err(ioerr('IsADirectory'))
        del fs[path]
        return ok(UNIT)
    add(r'(?:tokio::fs::)?remove_file::<.*>', lambda ex, c, a: fut(lambda: remove_file(pstr(a[0]))))
    add(r'(?:std::fs::)?remove_file::<.*>', lambda ex, c, a: remove_file(pstr(a[0])))

    def metadata(path):
        n = fs.get(path)
        if n is None:
            return err(ioerr('NotFound'))
        return ok(MetaL(n))
    add(r'(?:tokio::fs::)?(?:metadata|symlink_metadata)::<.*>', lambda ex, c, a: fut(lambda: metadata(pstr(a[0]))))
    add(r'(?:std::fs::)?(?:metadata|symlink_metadata)::<.*>', lambda ex, c, a: metadata(pstr(a[0])))
    add(r'(?:std::fs::)?Metadata::len', lambda ex, c, a: 0 if not deref(a[0]).node[1] else 7)
    add(r'(?:std::fs::)?Metadata::is_file', lambda ex, c, a: deref(a[0]).node[0] == 'file')
    add(r'(?:std::fs::)?Metadata::is_dir', lambda ex, c, a: deref(a[0]).node[0] == 'dir')

    def write_all(ex, c, a):
        f = deref(a[0])
        if not isinstance(f, FileH):
            return NotImplemented
        content = data_of(a[1])
        e = physical_write(f.path, content)
        r = err(e) if e else ok(UNIT)
        return fut(lambda: r) if 'tokio' in c or 'AsyncWrite' in c else r
    add(r'<(?:tokio::fs::)?File as (?:tokio::io::)?AsyncWriteExt>::write_all|(?:tokio::io::)?AsyncWriteExt::write_all::<.*>|<(?:std::fs::)?File as (?:std::io::)?Write>::write_all', write_all)
    add(r'<(?:tokio::fs::)?File as (?:tokio::io::)?AsyncWriteExt>::(flush|shutdown)|(?:tokio::io::)?AsyncWriteExt::(flush|shutdown)::<.*>|(?:tokio::fs::)?File::sync_all',
        lambda ex, c, a: fut(lambda: ok(UNIT)))
    add(r'<(?:std::fs::)?File as (?:std::io::)?Write>::flush|(?:std::fs::)?File::sync_all', lambda ex, c, a: ok(UNIT))
    add(r'<(?:tokio::fs::|std::fs::)?File as Drop>::drop', lambda ex, c, a: UNIT)

    def io_kind(ex, c, a):
        e = deref(a[0])
        if not isinstance(e, IoErrorV):
            return NotImplemented
        idx = STD_ENUMS.get('ErrorKind', {}).get(e.kind)
        if idx is None:
            raise Unsupported('std::io::ErrorKind::%s unknown' % e.kind)
        return Agg('std::io::ErrorKind', idx, [], e.kind)
    add(r'(?:std::io::)?Error::kind', io_kind)
    add(r'<(?:std::io::)?ErrorKind as PartialEq>::(eq|ne)',
        lambda ex, c, a: (kind_name(ex, a[0]) == kind_name(ex, a[1])) == c.endswith('eq'))
    add(r'(?:url::)?Url::from_file_path::<.*>', lambda ex, c, a: err(UNIT))
    add(r'(?:std::result::)?Result::<(?:url::)?Url, \(\)>::ok', lambda ex, c, a: none())

    # spawn_blocking: the closure runs at once
    def spawn_blocking(ex, c, a):
        r = ex.call_closure(a[0], [])
        return fut(lambda: ok(r))
    add(r'(?:tokio::task::)?spawn_blocking::<.*>', spawn_blocking)


class ContentV(Model):
    """&[u8] / Vec<u8> holding the first `n` bytes of content class cls (n = None: all of it)."""
    ty = 'bytes'
    unsized = True
    FULL = 10

    def __init__(self, cls, n=None):
        self.cls, self.n = cls, n

    def length(self):
        return self.FULL if self.n is None else self.n

    def clone_model(self):
        return self


PRE = ['absent', 'empty', 'nonempty', 'identical', 'prefix']


def make_local_write(prog):
    def mk_():
        res = {'bad': [], 'samples': []}

        def h(ex):
            A.install_misc(ex, None)
            pre = PRE[ex.concretize(ex.fresh_int('pre', 0, len(PRE) - 1), 0, len(PRE) - 1, 'pre-state of the target')]
            create_new = ex.branch(ex.fresh_bool('create_new'), 'CreateNew?')
            flaky = ex.branch(ex.fresh_bool('flaky'), 'may the physical write fail?')
            fs = {ROOT: ('dir',), OTHER: ('file', ['other'])}
            if pre == 'empty':
                fs[TARGET] = ('file', [])
            elif pre == 'nonempty':
                fs[TARGET] = ('file', ['old'])
            elif pre == 'identical':
                fs[TARGET] = ('file', ['new'])          # the very bytes that are about to be written (a path must not be written twice)
            elif pre == 'prefix':
                fs[TARGET] = ('file', ['new-prefix'])   # the first part of those bytes
            install(ex, fs, flaky)
            proto = mk(ex, 'transport::local::Protocol', path=M.PathV(ROOT), url=Opaque('Url'), tempdir=none())
            wname = [n for (n, tr) in prog.fn_index.get(('Protocol', 'Protocol', 'write'), []) if 'local' in n]
            if len(wname) != 1:
                raise Unsupported('local Protocol::write not found: %r' % (wname,))
            mode = enum_val(ex, 'transport::WriteMode', 'CreateNew' if create_new else 'Overwrite')
            boxed = ex.call_fn(wname[0], [Ref([proto], 0), 'f', ContentV('new'), mode])
            co = boxed
            while isinstance(co, Agg) and co.ty in ('Pin', 'Box'):
                co = co.fields[0]
            r = ex.poll_coroutine(co)
            if r.variant != 0:
                raise Unsupported('write returned Pending')
            r = r.fields[0]
            kind = None
            if r.variant != 0:
                from ..env import field
                kind = variant_name(ex, field(ex, r.fields[0], 'transport::error::Error', 'kind'))
            return dict(pre=pre, create_new=create_new, flaky=flaky, ok=r.variant == 0, kind=kind, target=fs.get(TARGET), other=fs.get(OTHER))

        def on_path(ex, out):
            if out[0] == 'panic':
                res['bad'].append({'kind': 'panic', 'msg': str(out[1])[:200], 'where': out[1].where})
                return
            if out[0] != 'ok':
                return
            o = out[1]
            problems = []
            t = o['target']
            content = t[1] if t else None
            if o['other'] != ('file', ['other']):
                problems.append('another file changed')
            if o['create_new'] and o['pre'] in ('nonempty', 'identical', 'prefix'):
                was = {'nonempty': ['old'], 'identical': ['new'], 'prefix': ['new-prefix']}[o['pre']]
                if o['ok'] or content != was:
                    problems.append('CreateNew on an existing non-empty file: result %s, the file now holds %r (must fail and leave it alone)'
                                    % ('Ok' if o['ok'] else 'Err(%s)' % o['kind'], content))
                elif o['kind'] != 'AlreadyExists':
                    problems.append('CreateNew on an existing file fails with kind %s, not AlreadyExists' % o['kind'])
            elif o['ok']:
                if content != ['new']:
                    problems.append('write returned Ok but the file holds %r' % (content,))
            else:
                # a failed write must not leave a partial file that looks complete, nor destroy nothing it should keep
                if content == ['partial']:
                    problems.append('failed write left a partial file behind')
                if o['create_new'] and o['pre'] == 'empty' and o['kind'] == 'AlreadyExists' and content != []:
                    problems.append('refused zero-length leftover was changed')
                if not o['flaky'] and not (o['create_new'] and o['pre'] == 'empty'):
                    problems.append('write failed (%s) although nothing was wrong' % o['kind'])
            rec = {k: v for k, v in o.items() if k not in ('other',)}
            if problems:
                res['bad'].append({'kind': 'contract', 'problems': problems, 'case': rec})
            elif len(res['samples']) < 3:
                res['samples'].append(rec)
        return h, on_path, res
    return mk_
