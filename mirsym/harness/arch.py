"""Shared builders for archive-level harnesses: symbolic archives written directly in the documented
format into the store model, helpers to run conserve's async functions from MIR, and an independent
reader of the store (used by the oracles)."""
import re

import z3

from ..interp import Explorer, Stats
from ..values import *  # noqa
from .. import env
from .. import models as M
from ..models import deref, some, none, ok, err
from ..env import mk, enum_val, Store, TransportV, Raw, JsonDoc, Compressed, Garbage, Data, HashV


def fn_by(prog, ty, trait, method):
    c = prog.fn_index.get((ty, trait, method))
    if not c:
        raise Unsupported('function %s::%s not found in MIR' % (ty, method))
    if len(c) > 1:
        raise Unsupported('function %s::%s ambiguous' % (ty, method))
    return c[0][0]


def run_async(ex, name, args):
    co = ex.call_fn(name, args)
    r = ex.poll_coroutine(co)
    if r.variant != 0:
        raise Unsupported('async function returned Pending')
    return r.fields[0]


def band_name(i):
    return 'b%04d' % i


def hunk_path(band, n):
    return '%s/i/%05d/%09d' % (band_name(band), n // 10000, n)


def apath_of(s):
    return Agg('apath::Apath', None, [s])


def mk_owner(ex, user=None, group=None):
    return mk(ex, 'owner::Owner', user=some(user) if user is not None else none(),
              group=some(group) if group is not None else none())


def mk_mode(mode=None):
    return Agg('unix_mode::UnixMode', None, [some(mode) if mode is not None else none()])


def mk_entry(ex, path, kind='File', tag=0, addrs=None, target=None, nanos=0, mode=None, owner=None):
    return mk(ex, 'index::entry::IndexEntry', apath=apath_of(path), kind=enum_val(ex, 'kind::Kind', kind), mtime=tag,
              unix_mode=mk_mode(mode), owner=owner or mk_owner(ex), mtime_nanos=nanos,
              addrs=VecV(addrs or []), target=some(target) if target is not None else none())


def mk_addr(ex, h, start, length):
    return mk(ex, 'blockdir::Address', hash=h, start=start, len=length)


def put_head(ex, st, band, version='0.6.3'):
    head = mk(ex, 'band::Head', start_time=0, band_format_version=some(version) if version is not None else none(),
              format_flags=VecV([]))
    doc = JsonDoc(head, 'Head', 40)
    doc.newline = True
    st.put_file(band_name(band) + '/BANDHEAD', doc)
    st.put_dir(band_name(band) + '/i')


def put_tail(ex, st, band, hunk_count):
    tail = mk(ex, 'band::Tail', end_time=0, index_hunk_count=some(hunk_count) if hunk_count is not None else none())
    doc = JsonDoc(tail, 'Tail', 30)
    doc.newline = True
    st.put_file(band_name(band) + '/BANDTAIL', doc)


def put_hunk(ex, st, band, n, entries, raw=False):
    """An index hunk as conserve writes it (fields that serde leaves out under a skip_serializing_if predicate come back as
    their default); raw=True stores the values as given - what a reader DECODES, which need not be anything conserve wrote."""
    entries = list(entries)
    if not raw:
        for e in entries:
            env.apply_serde_skips(ex, e)
    doc = JsonDoc(VecV(entries), 'Vec<IndexEntry>', 50)
    st.put_file(hunk_path(band, n), Compressed(doc, 20))


def put_block(ex, st, payload):
    """Store a data block; returns its HashV."""
    h = st.hashes.hash_of(ex, payload)
    st.put_file('d/%s/%s' % (h.name[:3], h.name), Compressed(payload, 9))
    return h


def new_archive(ex, policy=None, createnew='local'):
    st = Store(ex, policy, createnew)
    env.install(ex, st)
    install_misc(ex, st)
    st.put_dir('d')
    hdr = JsonDoc(mk(ex, 'archive::ArchiveHeader', conserve_archive_version='0.6'), 'ArchiveHeader', 30)
    hdr.newline = True
    st.put_file('CONSERVE', hdr)
    names = ex.prog.src.struct_fields('archive::Archive')
    if names == ['transport']:
        ar = mk(ex, 'archive::Archive', transport=TransportV(st, ''))
    else:
        # the struct carries more than the transport (a cache, say): let the real Archive::open build the value
        ar = run_async(ex, fn_by(ex.prog, 'Archive', None, 'open'), [TransportV(st, '')])
        if ar.variant != 0:
            raise Unsupported('Archive::open failed on the harness archive')
        ar = ar.fields[0]
        st.log.clear() if hasattr(st, 'log') and isinstance(st.log, list) else None
    return st, ar


def monitor_arc(ex):
    return Agg('Arc', None, [ex.env['monitor']])


def exclude_nothing(ex):
    return ExcludeV()


class ExcludeV(Model):
    """Exclude::nothing(): matches no path (glob semantics are outside the claim, see C15)."""
    ty = 'Exclude'

    def clone_model(self):
        return self


def install_misc(ex, st):
    I = ex.intercepts

    def add(pattern, fn):
        I.append((re.compile('(?:' + pattern + r')$'), fn))
    add(r'(?:excludes::)?Exclude::nothing', lambda ex, c, a: ExcludeV())
    add(r'(?:excludes::)?Exclude::matches::<.*>', lambda ex, c, a: False)
    add(r'<(?:excludes::)?Exclude as Clone>::clone', lambda ex, c, a: deref(a[0]))

    # semver: only what band_version_supported needs, on concrete strings
    def ver_parse(ex, c, a):
        s = str_simplify(deref(a[0]))
        if not isinstance(s, str):
            raise Unsupported('semver parse of symbolic string')
        m = re.match(r'^(\d+)\.(\d+)\.(\d+)$', s)
        if not m:
            return err(Opaque('semver::Error'))
        return ok(SemVer(tuple(int(x) for x in m.groups())))

    def req_parse(ex, c, a):
        s = str_simplify(deref(a[0]))
        m = re.match(r'^<=(\d+)\.(\d+)\.(\d+)$', s) if isinstance(s, str) else None
        if not m:
            raise Unsupported('VersionReq %r' % (s,))
        return ok(SemVer(tuple(int(x) for x in m.groups())))
    add(r'(?:semver::)?Version::parse', ver_parse)
    add(r'(?:semver::)?VersionReq::parse', req_parse)
    add(r'(?:semver::)?VersionReq::matches', lambda ex, c, a: deref(a[1]).v <= deref(a[0]).v)

    # tokio JoinSet / Semaphore: spawned futures run to completion at spawn time; results are joined in spawn order
    class JoinSetV(Model):
        ty = 'JoinSet'

        def __init__(self):
            self.results = []

    def js_spawn(ex, c, a):
        js = deref(a[0])
        fut = a[1]
        if isinstance(fut, Agg) and fut.ty.startswith('{'):
            r = ex.poll_coroutine(fut)
            js.results.append(r.fields[0])
            return Opaque('AbortHandle')
        raise Unsupported('JoinSet::spawn of %r' % (fut,))

    def js_join_next(ex, c, a):
        js = deref(a[0])
        return M.ReadyFuture(lambda: some(ok(js.results.pop(0))) if js.results else none())

    def js_join_all(ex, c, a):
        js = deref(a[0])
        return M.ReadyFuture(lambda: VecV(list(js.results)))
    add(r'(?:tokio::task::)?JoinSet::<.*>::new', lambda ex, c, a: JoinSetV())
    add(r'(?:tokio::task::)?JoinSet::<.*>::spawn::<.*>', js_spawn)
    add(r'(?:tokio::task::)?JoinSet::<.*>::join_next', js_join_next)
    add(r'(?:tokio::task::)?JoinSet::<.*>::join_all', js_join_all)
    add(r'(?:tokio::sync::)?Semaphore::new|(?:tokio::sync::)?Semaphore::const_new', lambda ex, c, a: Opaque('Semaphore'))
    add(r'(?:tokio::sync::)?Semaphore::acquire', lambda ex, c, a: M.ReadyFuture(lambda: ok(Opaque('permit'))))

    def lru_new(ex, c, a):
        return M.MapV()
    add(r'(?:lru::)?LruCache::<.*>::new', lru_new)
    add(r'(?:lru::)?LruCache::<.*>::put', lambda ex, c, a: deref(a[0]).insert(ex, a[1], a[2]))

    def lru_get(ex, c, a):
        mp = deref(a[0])
        i = mp.find(ex, deref(a[1]))
        return none() if i is None else some(Ref(mp.items[i], 1))
    add(r'(?:lru::)?LruCache::<.*>::get::<.*>', lru_get)

    def lru_pop(ex, c, a):
        mp = deref(a[0])
        i = mp.find(ex, deref(a[1]))
        if i is None:
            return none()
        v = mp.items[i][1]
        del mp.items[i]
        return some(v)
    add(r'(?:lru::)?LruCache::<.*>::pop::<.*>', lru_pop)
    add(r'<usize as TryInto<NonZero<usize>>>::try_into|<usize as TryInto<std::num::NonZero<usize>>>::try_into',
        lambda ex, c, a: ok(a[0]))
    def atomic(ex, c, a):
        op = c.rsplit('::', 1)[1]
        r = a[0]
        if not isinstance(r, Ref):
            return 0
        old = r.get()
        if old is UNINIT or not isinstance(old, int) and not is_sym(old):
            old = 0
        if op == 'fetch_add':
            r.set(old + a[1])
        elif op == 'store':
            r.set(a[1])
            return UNIT
        return old
    add(r'(?:std::sync::atomic::)?Atomic(?:Usize|::<usize>|U64|::<u64>)::(fetch_add|load|store)', atomic)
    add(r'<(?:std::sync::atomic::)?Atomic(?:Usize|<usize>) as Default>::default|(?:std::sync::atomic::)?Atomic(?:Usize|::<usize>)::new',
        lambda ex, c, a: a[0] if a else 0)
    add(r'(?:tokio::)?(?:task::)?spawn::<.*>', spawn_now)


def spawn_now(ex, c, a):
    """tokio::task::spawn: the task body runs to completion at once (single deterministic schedule)."""
    fut = a[0]
    if isinstance(fut, Agg) and fut.ty.startswith('{'):
        r = ex.poll_coroutine(fut)
        return M.ReadyFuture(lambda: ok(r.fields[0]))
    raise Unsupported('spawn of %r' % (fut,))


class SemVer(Model):
    ty = 'SemVer'

    def __init__(self, v):
        self.v = v


def hash_by_name(st, name):
    for p, h in st.hashes.known:
        if h.name == name:
            return h
    if re.match(r'^[0-9a-f]{128}$', name):
        h = HashV(1000 + len(st.hashes.known), name)
        st.hashes.known.append((Garbage(), h))
        return h
    return None


# ============================================================================ independent reader of the store
def read_store(ex, st):
    """Decode the store by the documented layout (not by conserve's code):
    {band: {'head': bool, 'tail': hunk_count|None|'garbage', 'hunks': {n: [entries] | None}}, blocks: {name: payload}}"""
    bands = {}
    blocks = {}
    for p, n in st.nodes.items():
        m = re.match(r'^b(\d{4,})$', p)
        if m and n.kind == 'dir':
            bands.setdefault(int(m.group(1)), {'head': False, 'tail': False, 'hunks': {}, 'tail_count': None})
    for p, n in st.nodes.items():
        m = re.match(r'^b(\d{4,})/(BANDHEAD|BANDTAIL)$', p)
        if m and n.kind == 'file':
            b = bands.setdefault(int(m.group(1)), {'head': False, 'tail': False, 'hunks': {}, 'tail_count': None})
            if m.group(2) == 'BANDHEAD':
                b['head'] = isinstance(n.payload, JsonDoc)
                b['head_present'] = True
            else:
                # a zero-length tail is the leftover of a backup killed while writing it: the band was never finished
                b['tail_empty'] = isinstance(n.payload, Raw) and len(n.payload.data) == 0
                b['tail_present'] = True
                b['tail'] = not b['tail_empty']
                if isinstance(n.payload, JsonDoc):
                    tc = n.payload.value.fields[1]
                    b['tail_count'] = tc.fields[0] if tc.variant == 1 else None
        m = re.match(r'^b(\d{4,})/i/(\d{5})/(\d{9})$', p)
        if m and n.kind == 'file':
            b = bands.setdefault(int(m.group(1)), {'head': False, 'tail': False, 'hunks': {}, 'tail_count': None})
            pl = n.payload
            if isinstance(pl, Compressed) and isinstance(pl.inner, JsonDoc):
                b['hunks'][int(m.group(3))] = pl.inner.value.items
            else:
                b['hunks'][int(m.group(3))] = None
                if isinstance(pl, Raw) and len(pl.data) == 0:
                    b.setdefault('empty_hunks', set()).add(int(m.group(3)))
            b.setdefault('hunk_dirs', {})[int(m.group(3))] = int(m.group(2))
        m = re.match(r'^d/([0-9a-f]{3})/([0-9a-f]{128})$', p)
        if m and n.kind == 'file':
            blocks[m.group(2)] = (m.group(1), n.payload)
    return bands, blocks
