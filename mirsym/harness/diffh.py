"""C18: diff() and the backup change callback against an independent classification of the real differences."""
import itertools

import z3

from ..interp import Explorer, Stats, parallel_explore
from ..values import *  # noqa
from .. import env, models as M
from ..models import deref, some, none, ok
from ..env import mk, enum_val, field, variant_name, Data
from . import arch as A
from . import backup as B

PATHS = ['/a', '/b', '/c']
KINDS = ['File', 'Dir', 'Symlink']


class Side:
    """Metadata of one entry on one side (stored or live).  Only entries present on both sides need full detail."""

    def __init__(self, ex, label, detail=True, like=None):
        k = ex.concretize(ex.fresh_int(label + 'kind', 0, 2), 0, 2, 'kind')
        self.kind = KINDS[k]
        self.size = ex.fresh_int(label + 'size', 0, 1 << 30)
        self.sec = ex.fresh_int(label + 'sec', -1000000, 4000000000)
        self.nanos = ex.fresh_int(label + 'ns', 0, B.NANOS - 1)
        self.mode = ex.fresh_int(label + 'mode', 0, 0o7777)
        self.user, self.target = 1, 1
        if detail:
            # owner: 0 = a group without a user name (half-named), 1 = 'root'; on both sides, so that "the same half-named owner
            # on both sides" (no change) is among the cases
            self.user = ex.concretize(ex.fresh_int(label + 'user', 0, 1), 0, 1, 'user')
        if detail and label.startswith('s'):
            if self.kind == 'Symlink' and (like is None or like.kind == 'Symlink'):
                self.target = ex.concretize(ex.fresh_int(label + 'tgt', 1, 2), 1, 2, 'target')


def user_name(u):
    return None if u == 0 else 'root'


def changed_oracle(a, b):
    """From the property statement: kind, owner, mode differ, or (file) size or mtime differ, or (symlink) target differs."""
    if a.kind != b.kind or a.user != b.user:
        return True
    c = [b_not(eq(a.mode, b.mode))]
    if a.kind == 'File':
        c += [b_not(eq(a.size, b.size)), b_not(eq(a.sec, b.sec)), b_not(eq(a.nanos, b.nanos))]
    if a.kind == 'Symlink' and a.target != b.target:
        return True
    return b_or(*c)


def make(prog, presence, include_unchanged):
    """presence: per path 'S' stored only, 'L' live only, 'B' both."""
    cands = [n for n, _ in prog.fn_index.get((None, None, 'diff'), []) if n in ('diff', 'diff::diff')]
    if len(cands) != 1:
        raise Unsupported('diff() not found in MIR')
    diff_name = cands[0]
    nxt = A.fn_by(prog, 'Diff', None, 'next')

    def mk_():
        res = {'bad': [], 'samples': []}

        def h(ex):
            st, ar = A.new_archive(ex)
            B.install_time(ex)
            stored, live = {}, {}
            ents = [A.mk_entry(ex, '/', 'Dir', 5, mode=0o755)]
            files = [B.SrcFile('/', 'Dir', mtime=B.TimeV(5, 0), mode=0o755)]
            for p, pr in zip(PATHS, presence):
                if pr == '-':
                    continue
                if pr in 'SB':
                    s = Side(ex, 's' + p[1], pr == 'B')
                    stored[p] = s
                    addrs = []
                    if s.kind == 'File' and ex.branch(b_lt(0, s.size), 'stored file non-empty?'):
                        hsh = A.put_block(ex, st, Data([(ord(p[1]), 0, s.size)]))
                        addrs = [A.mk_addr(ex, hsh, 0, s.size)]
                    ents.append(A.mk_entry(ex, p, s.kind, s.sec, addrs=addrs, target='t%d' % s.target if s.kind == 'Symlink' else None,
                                           nanos=s.nanos, mode=s.mode, owner=A.mk_owner(ex, user_name(s.user), 'root')))
                if pr in 'LB':
                    l = Side(ex, 'l' + p[1], pr == 'B', stored.get(p))
                    live[p] = l
                    files.append(B.SrcFile(p, l.kind, cls=100 + ord(p[1]), size=l.size, target='t%d' % l.target if l.kind == 'Symlink' else None,
                                           mtime=B.TimeV(l.sec, l.nanos), mode=l.mode, user=user_name(l.user), group='root'))
            A.put_head(ex, st, 0)
            A.put_hunk(ex, st, 0, 0, ents)
            A.put_tail(ex, st, 0, 1)
            st.mode = 'run'
            tree = B.SourceTreeV(files)
            B.install_source(ex, tree)
            band = A.run_async(ex, A.fn_by(prog, 'Band', None, 'open'), [Ref([ar], 0), Agg('bandid::BandId', None, [0])])
            stree = mk(ex, 'stored_tree::StoredTree', band=band.fields[0], archive=ar)
            opts = mk(ex, 'diff::DiffOptions', exclude=A.ExcludeV(), include_unchanged=include_unchanged)
            r = A.run_async(ex, diff_name, [Ref([stree], 0), Ref([tree], 0), opts, A.monitor_arc(ex)])
            if r.variant != 0:
                raise Unsupported('diff() failed')
            cell = [r.fields[0]]
            got = []
            for _ in range(12):
                o = A.run_async(ex, nxt, [Ref(cell, 0, True)])
                if o.variant == 0:
                    break
                ec = o.fields[0]
                ap = str_simplify(field(ex, ec, 'change::EntryChange', 'apath').fields[0])
                got.append((ap, variant_name(ex, field(ex, ec, 'change::EntryChange', 'change'))))
            # oracle (may fork on symbolic metadata equality)
            want = []
            if include_unchanged:
                want.append(('/', 'Unchanged'))
            for p, pr in zip(PATHS, presence):
                if pr == '-':
                    continue
                if pr == 'S':
                    want.append((p, 'Deleted'))
                elif pr == 'L':
                    want.append((p, 'Added'))
                else:
                    ch = changed_oracle(stored[p], live[p])
                    if ex.branch(ch, 'oracle changed?'):
                        want.append((p, 'Changed'))
                    elif include_unchanged:
                        want.append((p, 'Unchanged'))
            return got, want, stored, live

        def on_path(ex, out):
            if out[0] == 'panic':
                res['bad'].append({'kind': 'panic', 'msg': str(out[1])[:200], 'where': out[1].where, 'presence': presence})
                return
            if out[0] != 'ok':
                return
            got, want, stored, live = out[1]
            if got != want:
                r0, m = ex.E.check()
                res['bad'].append({'kind': 'wrong-diff', 'got': got, 'want': want, 'presence': presence,
                                   'include_unchanged': include_unchanged, 'model': B.model_values(m),
                                   'kinds': {p: (stored[p].kind if p in stored else None, live[p].kind if p in live else None) for p in PATHS}})
            elif not res['samples'] and len(got) >= 2:
                r0, m = ex.E.check()
                res['samples'].append({'presence': presence, 'diff': got, 'include_unchanged': include_unchanged, 'model': B.model_values(m),
                                       'kinds': {p: (stored[p].kind if p in stored else None, live[p].kind if p in live else None) for p in PATHS}})
        return h, on_path, res
    return mk_


def make_cb(prog, presence):
    """The change callback of the next backup names the same added / changed / deleted files as the diff oracle."""
    def mk_():
        res = {'bad': [], 'samples': []}

        def h(ex):
            st, ar = A.new_archive(ex)
            B.install_time(ex)
            stored, live = {}, {}
            ents = [A.mk_entry(ex, '/', 'Dir', 5, mode=0o755)]
            files = [B.SrcFile('/', 'Dir', mtime=B.TimeV(5, 0), mode=0o755)]
            for p, pr in zip(PATHS, presence):
                if pr == '-':
                    continue
                if pr in 'SB':
                    s = Side(ex, 's' + p[1], pr == 'B')
                    stored[p] = s
                    addrs = []
                    if s.kind == 'File':
                        ex.assume(s.size <= 64)
                    if s.kind == 'File' and ex.branch(b_lt(0, s.size), 'stored file non-empty?'):
                        hsh = A.put_block(ex, st, Data([(ord(p[1]), 0, s.size)]))
                        addrs = [A.mk_addr(ex, hsh, 0, s.size)]
                    ents.append(A.mk_entry(ex, p, s.kind, s.sec, addrs=addrs, target='t%d' % s.target if s.kind == 'Symlink' else None,
                                           nanos=s.nanos, mode=s.mode, owner=A.mk_owner(ex, user_name(s.user), 'root')))
                if pr in 'LB':
                    l = Side(ex, 'l' + p[1], pr == 'B', stored.get(p))
                    live[p] = l
                    if l.kind == 'File':
                        ex.assume(l.size <= 64)
                    files.append(B.SrcFile(p, l.kind, cls=100 + ord(p[1]), size=l.size, target='t%d' % l.target if l.kind == 'Symlink' else None,
                                           mtime=B.TimeV(l.sec, l.nanos), mode=l.mode, user=user_name(l.user), group='root'))
            A.put_head(ex, st, 0)
            A.put_hunk(ex, st, 0, 0, ents)
            A.put_tail(ex, st, 0, 1)
            st.mode = 'run'
            tree = B.SourceTreeV(files)
            events = []

            def cb(ec):
                ec = deref(ec)
                ap = str_simplify(field(ex, ec, 'change::EntryChange', 'apath').fields[0])
                events.append((ap, variant_name(ex, field(ex, ec, 'change::EntryChange', 'change'))))
                return ok(UNIT)
            opts = B.backup_options(ex, 1000, 1 << 20, 1 << 10, True)
            env.set_field(ex, opts, 'backup::BackupOptions', 'change_callback', some(Agg('Box', None, [cb])))
            r = B.run_backup(ex, ar, tree, opts)
            if r[0] != 'ok':
                raise Unsupported('backup failed in the change-callback harness')
            got = [e for e in events if e[1] == 'Deleted' or (e[0] in live and live[e[0]].kind == 'File')]
            # "comparing a version with the very tree it was made from reports no change": the version this backup just wrote
            nb = max(A.read_store(ex, st)[0])
            band1 = A.run_async(ex, A.fn_by(prog, 'Band', None, 'open'), [Ref([ar], 0), Agg('bandid::BandId', None, [nb])])
            if band1.variant == 0:
                dcands = [n for n, _ in prog.fn_index.get((None, None, 'diff'), []) if n in ('diff', 'diff::diff')]
                stree1 = mk(ex, 'stored_tree::StoredTree', band=band1.fields[0], archive=ar)
                dopts = mk(ex, 'diff::DiffOptions', exclude=A.ExcludeV(), include_unchanged=False)
                B.install_source(ex, tree)
                dr = A.run_async(ex, dcands[0], [Ref([stree1], 0), Ref([tree], 0), dopts, A.monitor_arc(ex)])
                if dr.variant == 0:
                    cell1 = [dr.fields[0]]
                    dnxt = A.fn_by(prog, 'Diff', None, 'next')
                    for _ in range(12):
                        o1 = A.run_async(ex, dnxt, [Ref(cell1, 0, True)])
                        if o1.variant == 0:
                            break
                        ec1 = o1.fields[0]
                        got.append((str_simplify(field(ex, ec1, 'change::EntryChange', 'apath').fields[0]),
                                    'new version differs from its own tree: ' + variant_name(ex, field(ex, ec1, 'change::EntryChange', 'change'))))
            want = []
            for p, pr in zip(PATHS, presence):
                if pr == '-':
                    continue
                if pr == 'S':
                    want.append((p, 'Deleted'))
                elif pr == 'L':
                    if live[p].kind == 'File':
                        want.append((p, 'Added'))
                elif live[p].kind == 'File':
                    if ex.branch(changed_oracle(stored[p], live[p]), 'oracle changed?'):
                        want.append((p, 'Changed'))
                    else:
                        want.append((p, 'Unchanged'))
            return got, want, stored, live

        def on_path(ex, out):
            if out[0] == 'panic':
                res['bad'].append({'kind': 'panic', 'msg': str(out[1])[:200], 'where': out[1].where, 'presence': presence})
                return
            if out[0] != 'ok':
                return
            got, want, stored, live = out[1]
            if got != want:
                r0, m = ex.E.check()
                res['bad'].append({'kind': 'wrong-backup-changes', 'got': got, 'want': want, 'presence': presence, 'model': B.model_values(m),
                                   'kinds': {p: (stored[p].kind if p in stored else None, live[p].kind if p in live else None) for p in PATHS}})
            elif not res['samples'] and len(got) >= 2:
                r0, m = ex.E.check()
                res['samples'].append({'presence': presence, 'backup_changes': got, 'which': 'backup-callback', 'model': B.model_values(m),
                                       'kinds': {p: (stored[p].kind if p in stored else None, live[p].kind if p in live else None) for p in PATHS}})
        return h, on_path, res
    return mk_


# ---------------------------------------------------------------------------- nested names around '/'
NESTED = [('/conf', 'Dir'), ('/conf.d', 'Dir'), ('/src', 'Dir'), ('/src-old', 'Dir'), ('/conf/sub', 'Dir'), ('/conf/sub/x', 'File'),
          ('/conf.d/y', 'File'), ('/src/m', 'File'), ('/src-old/n', 'File')]


def make_nested(prog, removed, added, callback):
    """Stored version = NESTED minus `added`; live tree = NESTED minus `removed`.  Everything else is unchanged, so the
    comparison must report exactly the removed and added paths (alignment of the two streams across names with bytes below '/')."""
    cands = [n for n, _ in prog.fn_index.get((None, None, 'diff'), []) if n in ('diff', 'diff::diff')]
    if len(cands) != 1:
        raise Unsupported('diff() not found in MIR')
    diff_name = cands[0]
    nxt = A.fn_by(prog, 'Diff', None, 'next')
    order = sorted(NESTED, key=lambda pk: B.apath_key(pk[0]))

    def mk_():
        res = {'bad': [], 'samples': []}

        def h(ex):
            st, ar = A.new_archive(ex)
            ents = [A.mk_entry(ex, '/', 'Dir', 5, mode=0o755, owner=A.mk_owner(ex, 'root', 'root'))]
            files = [B.SrcFile('/', 'Dir', mtime=B.TimeV(5, 0), mode=0o755, user='root', group='root')]
            for i, (p, k) in enumerate(order):
                size = 3 + i
                if p not in added:
                    addrs = []
                    if k == 'File':
                        hsh = A.put_block(ex, st, Data([(50 + i, 0, size)]))
                        addrs = [A.mk_addr(ex, hsh, 0, size)]
                    ents.append(A.mk_entry(ex, p, k, 100 + i, addrs=addrs, mode=0o755 if k == 'Dir' else 0o644, owner=A.mk_owner(ex, 'root', 'root')))
                if p not in removed:
                    files.append(B.SrcFile(p, k, cls=50 + i, size=size, mtime=B.TimeV(100 + i, 0), mode=0o755 if k == 'Dir' else 0o644,
                                           user='root', group='root'))
            A.put_head(ex, st, 0)
            A.put_hunk(ex, st, 0, 0, ents)
            A.put_tail(ex, st, 0, 1)
            st.mode = 'run'
            tree = B.SourceTreeV(files)
            kinds = dict(NESTED)
            if callback:
                events = []

                def cb(ec):
                    ec = deref(ec)
                    ap = str_simplify(field(ex, ec, 'change::EntryChange', 'apath').fields[0])
                    events.append((ap, variant_name(ex, field(ex, ec, 'change::EntryChange', 'change'))))
                    return ok(UNIT)
                opts = B.backup_options(ex, 1000, 1 << 20, 1 << 10, True)
                env.set_field(ex, opts, 'backup::BackupOptions', 'change_callback', some(Agg('Box', None, [cb])))
                r = B.run_backup(ex, ar, tree, opts)
                if r[0] != 'ok':
                    raise Unsupported('backup failed in the nested change-callback harness')
                got = [e for e in events if e[1] != 'Unchanged']
                want = sorted([(p, 'Deleted') for p in removed] + [(p, 'Added') for p in added if kinds[p] == 'File'], key=lambda t: B.apath_key(t[0]))
                got = sorted(got, key=lambda t: B.apath_key(t[0]))
            else:
                B.install_source(ex, tree)
                band = A.run_async(ex, A.fn_by(prog, 'Band', None, 'open'), [Ref([ar], 0), Agg('bandid::BandId', None, [0])])
                stree = mk(ex, 'stored_tree::StoredTree', band=band.fields[0], archive=ar)
                opts = mk(ex, 'diff::DiffOptions', exclude=A.ExcludeV(), include_unchanged=False)
                r = A.run_async(ex, diff_name, [Ref([stree], 0), Ref([tree], 0), opts, A.monitor_arc(ex)])
                cell = [r.fields[0]]
                got = []
                for _ in range(30):
                    o = A.run_async(ex, nxt, [Ref(cell, 0, True)])
                    if o.variant == 0:
                        break
                    ec = o.fields[0]
                    got.append((str_simplify(field(ex, ec, 'change::EntryChange', 'apath').fields[0]),
                                variant_name(ex, field(ex, ec, 'change::EntryChange', 'change'))))
                want = sorted([(p, 'Deleted') for p in removed] + [(p, 'Added') for p in added], key=lambda t: B.apath_key(t[0]))
            return got, want

        def on_path(ex, out):
            if out[0] == 'panic':
                res['bad'].append({'kind': 'panic', 'msg': str(out[1])[:200], 'where': out[1].where, 'presence': 'nested'})
                return
            if out[0] != 'ok':
                return
            got, want = out[1]
            if got != want:
                res['bad'].append({'kind': 'wrong-diff-nested' if not callback else 'wrong-backup-changes-nested', 'got': got, 'want': want,
                                   'presence': 'nested', 'removed': removed, 'added': added, 'kinds': {}})
            elif not res['samples']:
                res['samples'].append({'removed': removed, 'added': added, 'report': got})
        return h, on_path, res
    return mk_
