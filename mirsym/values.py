"""Runtime values of the symbolic interpreter.

Scalars are Python ints/bools when concrete and z3 Int/Bool terms when symbolic.
"""
import z3


class Unsupported(Exception):
    """The interpreter met something it has no encoding for: the run is inconclusive."""


class Panic(Exception):
    """The interpreted program panicked on this path."""

    def __init__(self, msg, where=''):
        Exception.__init__(self, msg)
        self.msg, self.where = msg, where


class Infeasible(Exception):
    """An assumption made the current path infeasible."""


class Budget(Exception):
    """Step budget exhausted: inconclusive."""


class _Unit:
    __slots__ = ()

    def __repr__(self):
        return '()'


UNIT = _Unit()


class Uninit:
    __slots__ = ()

    def __repr__(self):
        return '<uninit>'


UNINIT = Uninit()


class Agg:
    """struct / tuple / enum value / closure / coroutine."""
    __slots__ = ('ty', 'variant', 'fields', 'vname', 'extra')

    def __init__(self, ty, variant, fields, vname=None, extra=None):
        self.ty, self.variant, self.fields, self.vname, self.extra = ty, variant, fields, vname, extra

    def __repr__(self):
        v = '' if self.variant is None else '#%s%s' % (self.variant, ':' + self.vname if self.vname else '')
        return '%s%s%r' % (self.ty, v, self.fields)


class Ref:
    """Pointer to a slot: container[key]."""
    __slots__ = ('c', 'k', 'mut')

    def __init__(self, c, k, mut=False):
        self.c, self.k, self.mut = c, k, mut

    def get(self):
        return self.c[self.k]

    def set(self, v):
        self.c[self.k] = v

    def __repr__(self):
        try:
            return '&%r' % (self.c[self.k],)
        except Exception:
            return '&<?>'


class VecV:
    """Vec<T> / VecDeque<T>: a concrete-length list of values."""
    __slots__ = ('items', 'ty')

    def __init__(self, items=None, ty='Vec'):
        self.items = items if items is not None else []
        self.ty = ty

    def __repr__(self):
        return 'Vec%r' % (self.items,)


class Slice:
    """&[T] / &mut [T]: window [lo, hi) of a VecV's list."""
    __slots__ = ('items', 'lo', 'hi')

    def __init__(self, items, lo, hi):
        self.items, self.lo, self.hi = items, lo, hi

    def __len__(self):
        return self.hi - self.lo

    def get(self, i):
        return self.items[self.lo + i]

    def __repr__(self):
        return 'Slice%r' % (self.items[self.lo:self.hi],)


class FnItem:
    __slots__ = ('name',)

    def __init__(self, name):
        self.name = name

    def __repr__(self):
        return 'fn ' + self.name


class Opaque:
    """A value the program only passes around (context, callsite, phantom...)."""
    __slots__ = ('what',)

    def __init__(self, what):
        self.what = what

    def __repr__(self):
        return '<%s>' % self.what


class Model:
    """Base class for Python-side model objects (transport, hash set, monitor ...)."""
    ty = 'Model'


# ----------------------------------------------------------------------------- scalars
def is_sym(v):
    return isinstance(v, z3.ExprRef)


def zint(v):
    return v if is_sym(v) else z3.IntVal(v)


def zbool(v):
    return v if is_sym(v) else z3.BoolVal(bool(v))


def b_and(*xs):
    out = []
    for x in xs:
        if x is True:
            continue
        if x is False:
            return False
        out.append(x)
    if not out:
        return True
    return out[0] if len(out) == 1 else z3.And(*out)


def b_or(*xs):
    out = []
    for x in xs:
        if x is False:
            continue
        if x is True:
            return True
        out.append(x)
    if not out:
        return False
    return out[0] if len(out) == 1 else z3.Or(*out)


def b_not(x):
    if isinstance(x, bool):
        return not x
    return z3.Not(x)


def b_implies(a, b):
    return b_or(b_not(a), b)


def ite(c, a, b):
    if isinstance(c, bool):
        return a if c else b
    if not is_sym(a) and not is_sym(b) and a == b and type(a) == type(b):
        return a
    if isinstance(a, bool) or isinstance(b, bool) or (is_sym(a) and z3.is_bool(a)):
        return z3.If(c, zbool(a), zbool(b))
    return z3.If(c, zint(a), zint(b))


def eq(a, b):
    if not is_sym(a) and not is_sym(b):
        return a == b
    if isinstance(a, bool) or isinstance(b, bool) or (is_sym(a) and z3.is_bool(a)):
        return zbool(a) == zbool(b)
    return zint(a) == zint(b)


INT_BITS = {'u8': 8, 'u16': 16, 'u32': 32, 'u64': 64, 'u128': 128, 'usize': 64,
            'i8': 8, 'i16': 16, 'i32': 32, 'i64': 64, 'i128': 128, 'isize': 64, 'char': 32, 'bool': 1}


def int_range(ty):
    bits = INT_BITS[ty]
    if ty[0] == 'i':
        return -(1 << (bits - 1)), (1 << (bits - 1)) - 1
    return 0, (1 << bits) - 1


def wrap(v, ty):
    """Reduce an unbounded integer to the value range of machine type ty (two's complement)."""
    if ty not in INT_BITS:
        return v
    lo, hi = int_range(ty)
    m = hi - lo + 1
    if not is_sym(v):
        return (v - lo) % m + lo
    return (v - lo) % m + lo


def in_range(v, ty):
    lo, hi = int_range(ty)
    if not is_sym(v):
        return lo <= v <= hi
    return z3.And(v >= lo, v <= hi)


# ----------------------------------------------------------------------------- strings
class SymStr:
    """A string as a bounded sequence of code points; n (<= len(chars)) is its length in chars."""
    __slots__ = ('chars', 'n')

    def __init__(self, chars, n):
        self.chars, self.n = list(chars), n

    @staticmethod
    def lit(s):
        return SymStr([ord(c) for c in s], len(s))

    def concrete(self):
        """Return the Python str if fully concrete, else None."""
        if is_sym(self.n):
            return None
        out = []
        for c in self.chars[:self.n]:
            if is_sym(c):
                return None
            out.append(chr(c))
        return ''.join(out)

    def elem(self, k):
        """Code point at char index k (z3 or int); -1 if out of range."""
        if not is_sym(k):
            if 0 <= k < len(self.chars):
                return ite(b_lt(k, self.n), self.chars[k], -1)
            return -1
        e = z3.IntVal(-1)
        for i in reversed(range(len(self.chars))):
            e = z3.If(z3.And(k == i, zint(i) < zint(self.n)), zint(self.chars[i]), e)
        return e

    def blen(self):
        """UTF-8 byte length."""
        t = 0
        for i, c in enumerate(self.chars):
            u = utf8_len(c)
            t = t + ite(b_lt(i, self.n), u, 0) if (is_sym(self.n) or is_sym(u)) else t + (u if i < self.n else 0)
        return t

    def slice_chars(self, a, b=None):
        if b is None:
            return SymStr(self.chars[a:], self.n - a)
        return SymStr(self.chars[a:b], b - a)

    def __repr__(self):
        c = self.concrete()
        return 'SymStr(%r)' % c if c is not None else 'SymStr<%d>' % len(self.chars)


def b_lt(a, b):
    if not is_sym(a) and not is_sym(b):
        return a < b
    return zint(a) < zint(b)


def utf8_len(c):
    if not is_sym(c):
        return 1 if c < 0x80 else 2 if c < 0x800 else 3 if c < 0x10000 else 4
    return z3.If(c < 0x80, 1, z3.If(c < 0x800, 2, z3.If(c < 0x10000, 3, 4)))


def as_symstr(s):
    if isinstance(s, SymStr):
        return s
    if isinstance(s, str):
        return SymStr.lit(s)
    raise Unsupported('not a string: %r' % (s,))


def str_simplify(s):
    if isinstance(s, SymStr):
        c = s.concrete()
        if c is not None:
            return c
    return s


def str_eq(a, b):
    if isinstance(a, str) and isinstance(b, str):
        return a == b
    a, b = as_symstr(a), as_symstr(b)
    m = max(len(a.chars), len(b.chars))
    conj = [eq(a.n, b.n)]
    for i in range(m):
        if i >= len(a.chars):
            conj.append(b_not(b_lt(i, b.n)))
            continue
        if i >= len(b.chars):
            conj.append(b_not(b_lt(i, a.n)))
            continue
        conj.append(b_implies(b_and(b_lt(i, a.n), b_lt(i, b.n)), eq(a.chars[i], b.chars[i])))
    return b_and(*conj)


def str_cmp(a, b):
    """Lexicographic by code point (== byte order for UTF-8). Returns int / z3 Int in {-1,0,1}."""
    if isinstance(a, str) and isinstance(b, str):
        ab, bb = a.encode('utf-8'), b.encode('utf-8')
        return -1 if ab < bb else 1 if ab > bb else 0
    a, b = as_symstr(a), as_symstr(b)
    m = max(len(a.chars), len(b.chars))
    bylen = ite(b_lt(a.n, b.n), -1, ite(b_lt(b.n, a.n), 1, 0))
    res = bylen
    for i in reversed(range(m)):
        ca = a.chars[i] if i < len(a.chars) else -1
        cb = b.chars[i] if i < len(b.chars) else -1
        both = b_and(b_lt(i, a.n), b_lt(i, b.n))
        res = ite(both, ite(b_lt(ca, cb), -1, ite(b_lt(cb, ca), 1, res)), bylen)
    return res


def str_starts_with(a, b):
    if isinstance(a, str) and isinstance(b, str):
        return a.startswith(b)
    a, b = as_symstr(a), as_symstr(b)
    conj = [b_not(b_lt(a.n, b.n))]
    for i in range(len(b.chars)):
        ca = a.chars[i] if i < len(a.chars) else -1
        conj.append(b_implies(b_lt(i, b.n), eq(ca, b.chars[i])))
    return b_and(*conj)


def str_concat(a, b):
    if isinstance(a, str) and isinstance(b, str):
        return a + b
    a, b = as_symstr(a), as_symstr(b)
    if not is_sym(a.n):
        return SymStr(a.chars[:a.n] + b.chars, a.n + b.n)
    # symbolic split point: position k of result is a[k] if k < a.n else b[k - a.n]
    total = len(a.chars) + len(b.chars)
    out = []
    for k in range(total):
        out.append(ite(b_lt(k, a.n), a.chars[k] if k < len(a.chars) else -1, b.elem(zint(k) - zint(a.n))))
    return SymStr(out, a.n + b.n)


def utf8_byte(c, j):
    """j-th byte (0-based) of the UTF-8 encoding of code point c (z3 Int or int) as an integer term."""
    c = zint(c)
    one = c
    two = [0xC0 + c / 64, 0x80 + c % 64]
    three = [0xE0 + c / 4096, 0x80 + (c / 64) % 64, 0x80 + c % 64]
    four = [0xF0 + c / 262144, 0x80 + (c / 4096) % 64, 0x80 + (c / 64) % 64, 0x80 + c % 64]
    def pick(lst):
        return lst[j] if j < len(lst) else z3.IntVal(-1)
    return z3.If(c < 0x80, one if j == 0 else z3.IntVal(-1),
                 z3.If(c < 0x800, pick(two), z3.If(c < 0x10000, pick(three), pick(four))))


def str_byte_at(s, k):
    """Byte at byte offset k of the UTF-8 encoding of s; -1 when out of range."""
    s = as_symstr(s)
    k = zint(k)
    res = z3.IntVal(-1)
    off = 0
    offs = []
    for i, c in enumerate(s.chars):
        offs.append(off)
        off = off + utf8_len(c)
    for i in reversed(range(len(s.chars))):
        c = s.chars[i]
        inner = z3.IntVal(-1)
        for j in reversed(range(4)):
            inner = z3.If(k == zint(offs[i]) + j, utf8_byte(c, j), inner)
        res = z3.If(z3.And(zint(i) < zint(s.n), k >= zint(offs[i]), k < zint(offs[i]) + zint(utf8_len(c))), inner, res)
    return res
