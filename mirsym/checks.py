"""Entry point: python3-vt -m mirsym.checks <property> [quick|thorough]"""
import os
import sys
import time
import traceback

from . import runner
from .interp import Program
from .values import Unsupported


def tier_deadline(tier, quick_s, thorough_s):
    return time.time() + (quick_s if tier == 'quick' else thorough_s)


def check_C11(rep, prog, tier):
    from .harness import apath as A
    A.setup(prog)
    N = 8 if tier == 'quick' else 10
    NT = 5 if tier == 'quick' else 7
    dl = tier_deadline(tier, 240, 2400)
    rep.bounds = {'max_code_points_per_path': N, 'alphabet': 'all Unicode scalar values (symbolic)',
                  'triples_max_code_points': NT}
    rep.assumptions += ['byte-wise str::cmp is modelled as code-point order (identical for UTF-8)',
                        'std str/String/Option models in mirsym/models.py', 'z3 is sound']
    A.differential(rep, prog, rep.seed)
    A.ob_is_valid(rep, prog, N if tier == 'quick' else N + 2, dl)
    A.ob_cmp(rep, prog, N, dl)
    A.ob_cmp_transitive(rep, prog, NT, dl)
    A.ob_append(rep, prog, N - 2, dl)


def check_C12(rep, prog, tier):
    from .harness import apath as A
    A.setup(prog)
    N = 8 if tier == 'quick' else 10
    dl = tier_deadline(tier, 240, 2400)
    rep.bounds = {'max_code_points_per_path': N, 'alphabet': 'all Unicode scalar values (symbolic)'}
    rep.assumptions += ['std str/String/Option models in mirsym/models.py', 'z3 is sound']
    A.differential(rep, prog, rep.seed)
    A.ob_prefix(rep, prog, N, dl)


CHECKS = {'C11': check_C11, 'C12': check_C12}


def main():
    prop = sys.argv[1]
    tier = sys.argv[2] if len(sys.argv) > 2 else os.environ.get('VERIF_TIER', 'quick')
    rep = runner.Report(prop, tier)
    try:
        text, secs, reused = runner.dump_mir()
        rep.extra['mir_dump_s'] = round(secs, 1)
        rep.extra['mir_regenerated'] = not reused
        rep.extra['mir_lines'] = text.count('\n')
        rep.extra['replay_build_s'] = round(runner.build_replay(), 1)
        prog = Program(text, runner.REPO)
        CHECKS[prop](rep, prog, tier)
    except runner.BuildError as e:
        rep.inconclusive.append('build: %s' % e)
    except Unsupported as e:
        rep.inconclusive.append('unsupported: %s' % e)
    except Exception as e:   # a bug in the machinery is never a pass and never an alarm
        traceback.print_exc()
        rep.inconclusive.append('internal error: %r' % (e,))
    sys.exit(rep.finish())


if __name__ == '__main__':
    main()
