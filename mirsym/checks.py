"""Entry point: python3-vt -m mirsym.checks <property> [quick|thorough]"""
import os
import re
import sys
import time
import traceback

from . import runner
from .interp import Program
from .values import Unsupported


def _stats(st):
    return dict(paths=st['paths'], queries=st['queries'], solver_s=round(st['solver_s'], 2), nontrivial=st.get('nontrivial', 0))


def tier_deadline(tier, quick_s, thorough_s):
    return time.time() + (quick_s if tier == 'quick' else thorough_s) * float(os.environ.get('VERIF_DEADLINE_SCALE', '1'))


def check_C11(rep, prog, tier):
    from .harness import apath as A
    A.setup(prog)
    N = 8 if tier == 'quick' else 10
    NT = 5 if tier == 'quick' else 7
    dl = tier_deadline(tier, 240, 2400)
    rep.bounds = {'max_code_points_per_path': N, 'alphabet': 'all Unicode scalar values (symbolic)',
                  'triples_max_code_points': NT}
    rep.assumptions += ['byte-wise str::cmp is modelled as code-point order (identical for UTF-8)',
                        'std str/String/Option models in mirsym/models.py', 'z3 is sound']
    A.differential(rep, prog, rep.seed)
    A.ob_is_valid(rep, prog, N if tier == 'quick' else N + 2, dl)
    A.ob_cmp(rep, prog, N, dl)
    A.ob_cmp_transitive(rep, prog, NT, dl)
    A.ob_append(rep, prog, N - 2, dl)
    walk_order(rep, prog, tier, dl)
    written_index_order(rep, prog, tier, dl)
    # "every listing": the stitched listing over mixed-depth symbolic paths (the obligation of C08/C12), whose oracle is the
    # documented order - a listing that resumes in string or byte order is out of order exactly on such paths
    subtree_listing(rep, prog, tier, tier_deadline(tier, 240, 1200))


WALK_SHAPES_QUICK = [(['F', 'F', 'F'], [1, 2]), (['F', 'S', ('D', [])], [2, 1]),
                     ([('D', ['F', 'F']), 'F', ('D', ['F'])], [1, 2]),
                     ([('D', [('D', ['F']), 'F']), ('D', ['F']), 'F'], [1, 1, 2]),
                     # a directory next to a sibling whose name extends it ("conf", "conf.d"), the shorter one holding a subdirectory
                     ([('D', [('D', ['F'])]), ('D', ['F'])], [1, 1, 1, 2, 1]), ([('D', ['F']), ('D', [('D', ['F'])])], [2, 1, 1, 1, 1]),
                     # 'L': a symlink that points at its sibling directory - recorded as a link, never descended into
                     ([('D', ['F']), 'L', 'F'], [1, 1, 1, 2])]
WALK_SHAPES_THOROUGH = WALK_SHAPES_QUICK + [
    ([('D', ['F', 'F']), 'F', ('D', ['F'])], [2, 1]), ([('D', ['F', ('D', ['F', 'F'])]), ('D', [('D', ['F'])]), 'F', 'F'], [1, 2]),
    ([('D', [('D', [('D', ['F'])]), 'F']), ('D', ['F', 'F']), 'S'], [1, 1, 2]), (['F', 'F', 'F', 'F'], [2])]


def written_index_order(rep, prog, tier, dl):
    """C11, written-index clause: the real backup() on nested names around '/' (files small enough to be combined, so that the
    hunk sort in IndexWriter::finish_hunk matters); the store is read back and must be strictly increasing (same cases as C13)."""
    from . import backup_checks as BC
    nested = ['/a', '/a b', '/a.d', '/a/sub', '/a/sub/f', '/a b/g', '/a.d/h']
    cases = []
    for opts in ((64, 16, 1000), (64, 16, 3), (4, 16, 1000)) if tier == 'quick' else ((64, 16, 1000), (64, 16, 3), (4, 16, 1000), (64, 16, 2), (64, 0, 1000)):
        cases.append(dict(kinds='DDDDFFF', classes=[0, 0, 0, 0, 1, 2, 3], mode='none', paths=nested, sizes=[0, 0, 0, 0, 5, 6, 7], fixed_opts=opts))
    # entries that reach the index writer in plain string order although the apath order differs: an empty file in a
    # subdirectory is recorded directly, a small file after it goes through the combiner and is appended last
    for H in (1000, 2):
        cases.append(dict(kinds='DFF', classes=[0, 1, 2], mode='none', paths=['/sub', '/zz', '/sub/empty'], sizes=[0, 5, 0], fixed_opts=(64, 16, H)))
    rep.bounds['written_index'] = {'names': nested, 'options (max_block_size, small_file_cap, max_entries_per_hunk)': [c['fixed_opts'] for c in cases]}
    BC.run_cases(rep, prog, cases, dl, 'C11', 'the index a backup writes for nested names around "/" is strictly increasing within and across hunks (independent reading of the store)',
                 require=[r'event-free run'])


def walk_order(rep, prog, tier, dl, shapes=None):
    """C11, walk clause: the real source::Iter over a directory model with symbolic names."""
    from .harness import walk as W
    from .interp import parallel_explore
    shapes = shapes or (WALK_SHAPES_QUICK if tier == 'quick' else WALK_SHAPES_THOROUGH)
    rep.bounds['walk'] = {'shapes (F file, S symlink, L symlink to its sibling directory, (D, children) directory)': [repr(s) for s, l in shapes],
                          'names': 'one or two symbolic code points each (any scalar value except "/" and NUL, not "." or ".."), distinct inside a directory; readdir order = model order, i.e. arbitrary'}
    rep.assumptions += ['fs::read_dir / DirEntry / symlink_metadata served by a directory model; entry_from_fs_metadata builds the entry from the model; Exclude::nothing(); no CACHEDIR.TAG']
    tot = dict(paths=0, queries=0, solver_s=0.0, nontrivial=0)
    bad, inconc = [], []
    for shape, lens in shapes:
        res, st, fns, mods, inc = parallel_explore(prog, W.make_walk(prog, shape, lens), deadline=dl, max_paths=100000, step_budget=400000)
        for k in tot:
            tot[k] += st.get(k, 0)
        rep.functions |= fns
        rep.models |= mods
        bad += res['bad']
        inconc += inc[:2]
        if res.get('samples') and len(rep.samples) < 6:
            rep.samples += res['samples'][:1]
    tot['solver_s'] = round(tot['solver_s'], 2)
    name = 'the source walk emits every entry once, in strictly increasing documented order (trees of depth <= %d, symbolic names)' % (3 if tier == 'quick' else 4)
    seen = set()
    for b in bad:
        key = 'walk:%s' % ('panic' if b['kind'] == 'panic' else b['problems'][0].split(' ')[0] + '-' + b['problems'][0].split(' ')[1])
        if key in seen:
            continue
        seen.add(key)
        if b['kind'] == 'panic':
            rep.violation(key, 'source walk panics: %s' % b['msg'], '', False)
            continue
        sc = {'kind': 'walk', 'tree': b['tree'], 'mirsym': {'emitted': b['emitted'], 'problems': b['problems']}}
        out, path = runner.replay(sc, 'C11_walk')
        native = out.get('emitted') or []
        reproduced = bool(out.get('order_violations')) or sorted(native) != sorted((t.split('@')[0].rstrip('/') or '/') for t in b['tree'])
        rep.violation(key, '%s; tree %r is walked as %r' % (b['problems'][0], b['tree'], native or b['emitted']), path, reproduced)
    if inconc:
        rep.inconclusive += ['walk: ' + x for x in inconc[:4]]
        rep.add_obligation(name, 'inconclusive', tot, inconc[:3])
    elif bad:
        rep.add_obligation(name, 'violated', tot, bad[:3])
    else:
        rep.add_obligation(name, 'holds', tot)


def check_C12(rep, prog, tier):
    from .harness import apath as A
    A.setup(prog)
    N = 8 if tier == 'quick' else 10
    dl = tier_deadline(tier, 240, 2400)
    rep.bounds = {'max_code_points_per_path': N, 'alphabet': 'all Unicode scalar values (symbolic)'}
    rep.assumptions += ['std str/String/Option models in mirsym/models.py', 'z3 is sound']
    A.differential(rep, prog, rep.seed)
    A.ob_prefix(rep, prog, N, dl)
    subtree_listing(rep, prog, tier, dl)
    from .harness import restoreh as R
    run_restore_obligation(rep, prog, 'restore --only S restores exactly the entries under S, identical to a full restore (names extending one another, non-ASCII)',
                           R.make_only(prog), dl, 'C12', _judge_only)


def stitch_conformance(rep, samples, inconclusive, limit=6):
    """Explored listings re-run natively on an archive written directly in the documented format must give the same listing."""
    for smp in [x for x in samples if x.get('scenario') and x.get('listing') is not None][:limit]:
        out, path = runner.replay({'kind': 'stitch', 'scenario': smp['scenario']}, rep.prop + '_conformance')
        want = [x for x in smp['listing'] if not isinstance(x, str)]
        if out.get('listing') != want:
            inconclusive.append('model/implementation disagreement: native listing %s, model %s (%s)' % (out.get('listing'), want, path))
        else:
            rep.diff_vectors += 1


def subtree_listing(rep, prog, tier, dl):
    """Stitch::next with a subtree filter over two-level symbolic paths (C12 clause 2, also C08's filter clause)."""
    from .harness import stitch as S
    import json
    if tier == 'quick':
        shapes = [[('closed', [(0, 2)]), ('open', [(0, 2)])], [('closed', [(0, 3)]), ('open', [(0, 1), (1, 1)])],
                  [('open', [(0, 2)]), ('open', [(0, 2)])]]
    else:
        shapes = [[('closed', [(0, 2)]), ('open', [(0, 2)])], [('closed', [(0, 3)]), ('open', [(0, 1), (1, 1)])],
                  [('open', [(0, 2)]), ('open', [(0, 2)])], [('closed', [(0, 3)]), ('open', [(0, 3)])],
                  [('closed', [(0, 2)]), ('open', [(0, 1)]), ('open', [(0, 2)])]]
    rep.bounds['subtree_listing_shapes'] = shapes
    rep.bounds['subtree_listing_paths'] = "'/c' or '/d/c' per entry (form chosen by the solver), name code points symbolic in [0x2d,0x7a] minus '/', subtree '/' or '/s'"
    tot = S.sweep_deep(prog, shapes, dl)
    rep.functions |= tot['functions']
    rep.models |= tot['models']
    rep.samples += tot['samples'][:2]
    if not tot['bad'] and not tot['inconclusive']:
        stitch_conformance(rep, tot['samples'], tot['inconclusive'], 3)
    st = dict(paths=tot['paths'], queries=tot['queries'], solver_s=round(tot['solver_s'], 2), nontrivial=tot.get('nontrivial', 0), shapes=tot['shapes_done'])
    name = 'listing a subtree of a stitched version == entries under the subtree by whole components'
    for b in tot['bad'][:1]:
        sc = {'kind': 'stitch', 'scenario': b.get('scenario'), 'expect': b.get('want'), 'mirsym_got': b.get('got')}
        out, path = runner.replay(sc, rep.prop + '_subtree')
        reproduced = out.get('listing') is not None and out.get('listing') == b.get('got') and b.get('got') != b.get('want')
        what = 'listing subtree %r of band %s of %s yields %s, expected %s' % (
            b['scenario'].get('subtree'), b['scenario'].get('list_band'), json.dumps(b['scenario'].get('bands')), b.get('got'), b.get('want'))
        rep.violation('stitch-subtree:' + b['kind'], what, path, reproduced)
    if tot['inconclusive']:
        rep.inconclusive += ['subtree listing: ' + x for x in tot['inconclusive'][:5]]
        rep.add_obligation(name, 'inconclusive', st, tot['inconclusive'][:3])
    elif tot['bad']:
        rep.add_obligation(name, 'violated', st, tot['bad'][:2])
    else:
        rep.add_obligation(name, 'holds', st)


def check_C08(rep, prog, tier):
    from .harness import stitch as S
    import json
    if tier == 'quick':
        nb, layouts = 3, [[], [(0, 1)], [(0, 2)], [(0, 1), (1, 1)], [(0, 2), (1, 1)], [(0, 0), (1, 1)], [(1, 1)]]
        dl = tier_deadline(tier, 420, 0)
    else:
        nb, layouts = 4, [[], [(0, 1)], [(0, 2)], [(0, 1), (1, 1)], [(0, 2), (1, 2)], [(0, 0), (1, 1)], [(1, 1)], [(0, 1), (1, 1), (2, 1)]]
        dl = tier_deadline(tier, 0, 2700)
    rep.bounds = {'bands': nb, 'hunk_layouts_per_band': layouts, 'band_states': S.STATES,
                  'entry_paths': '"/"+one symbolic code point in [0x30,0x7a], strictly increasing inside a band, unconstrained across bands',
                  'listed_band': 'the top band of each shape (bands above the listed one cannot influence it)'}
    rep.assumptions += ['hunk files hold what the writer put there: Snappy/JSON are modelled as exact inverses',
                        'Exclude::nothing() (glob semantics are C15, not applicable)',
                        'entries inside one band are sorted (C13 precondition)', 'transport model: mirsym/env.py Store']
    tot = S.sweep(prog, nb, layouts, tier, dl)
    rep.functions |= tot['functions']
    rep.models |= tot['models']
    rep.samples += tot['samples']
    if not tot['bad'] and not tot['inconclusive']:
        stitch_conformance(rep, tot['samples'], tot['inconclusive'], 4)
    st = dict(paths=tot['paths'], queries=tot['queries'], solver_s=round(tot['solver_s'], 2), nontrivial=tot.get('nontrivial', 0), shapes=tot['shapes_done'])
    name = 'Stitch::next listing == stitching rule, strictly ordered, terminates (%d bands)' % nb
    seen = set()
    for b in tot['bad']:
        key = 'stitch:' + b['kind']
        if key in seen:
            continue
        seen.add(key)
        sc = {'kind': 'stitch', 'scenario': b.get('scenario'), 'expect': b.get('want'), 'mirsym_got': b.get('got'), 'detail': b}
        out, path = runner.replay(sc, 'C08_stitch')
        glist = [x for x in (b.get('got') or []) if not isinstance(x, str)]
        gerr = [x for x in (b.get('got') or []) if isinstance(x, str)]
        reproduced = out.get('listing') is not None and out.get('listing') == glist and b.get('got') != b.get('want') \
            and (not gerr or gerr[0] == 'errors=%s' % out.get('errors'))
        if b['kind'] == 'panic':
            reproduced = bool(out.get('panic'))
        what = 'listing band %s of %s yields %s, stitching rule says %s' % (
            (b.get('scenario') or {}).get('list_band'), json.dumps((b.get('scenario') or {}).get('bands')), b.get('got'), b.get('want'))
        if b['kind'] != 'wrong-listing':
            what = '%s: %s' % (b['kind'], json.dumps(b, default=str)[:600])
        rep.violation(key, what, path, reproduced)
    if tot['inconclusive']:
        rep.inconclusive += ['stitch: ' + x for x in tot['inconclusive'][:5]]
        rep.add_obligation(name, 'inconclusive', st, tot['inconclusive'][:3])
    elif tot['bad']:
        rep.add_obligation(name, 'violated', st, tot['bad'][:3])
    else:
        rep.add_obligation(name, 'holds', st)
    # paths of mixed depth around the resume point, and the subtree filter (the same obligations C12 runs)
    subtree_listing(rep, prog, tier, tier_deadline(tier, 240, 1200))
    from .harness import apath as AP_
    AP_.setup(prog)
    AP_.ob_prefix(rep, prog, 8 if tier == 'quick' else 10, tier_deadline(tier, 120, 600))


def check_C05(rep, prog, tier):
    rep.level = 'fault_enumeration'
    gc_obligation(rep, prog, tier, tier_deadline(tier, 420, 2700), 'C05')


def spec_lock(b):
    return bool((b.get('spec') or {}).get('lock'))


def gc_obligation(rep, prog, tier, dl, prop):
    """delete_bands / gc over symbolic archives (C05; also the 'only an explicit delete or gc removes files, and then only ...' clause of C07)."""
    from .harness import gc as G
    import json
    rep.bounds['gc' if prop != 'C05' else 'delete_bands'] = {'archives': G.specs(tier), 'delete_sets': 'none (pure gc), each single band, all bands (in ascending and in descending order)',
                  'dry_run': [False, True], 'break_lock': 'both when GC_LOCK is present',
                  'crash_points': 'stop before every storage step k of delete_bands (k chosen by the solver)',
                  'faults': 'every single read/list/metadata step k failing with each of NotFound/Other/PermissionDenied/AlreadyExists',
                  'block_lengths': 'symbolic in [1, 2^20]'}
    rep.assumptions += ['BlockDir::open/list_blocks (tokio JoinSet) modelled as "the set of non-empty well-named block files"',
                        'remove_dir_all is atomic in the store model', 'tokio::spawn runs the spawned future to completion at once',
                        'Snappy/JSON exact inverses; hash injective', 'transport model: mirsym/env.py Store']
    tot = G.sweep(prog, tier, dl)
    rep.functions |= tot['functions']
    rep.models |= tot['models']
    rep.samples += tot['samples'][:2]
    st = dict(paths=tot['paths'], queries=tot['queries'], solver_s=round(tot['solver_s'], 2), nontrivial=tot.get('nontrivial', 0), cases=tot['cases_done'])
    name = 'delete_bands: exactly the requested bands go, kept bands keep every block, no garbage remains, dry run is pure; also after any crash point / read fault'
    seen = set()
    for b in tot['bad']:
        if b.get('kind') == 'panic':
            key = 'delete:panic:' + (b.get('where') or '').split('::')[-2 if '{closure' in (b.get('where') or '') else -1]
        else:
            probs = ' '.join(b['problems'])
            kind = 'kept-band-loses-blocks' if 'still listed complete but its blocks' in probs else \
                'half-deleted-band-still-complete' if 'its head or index hunks are gone' in probs else \
                'removes-foreign-lock' if 'held by someone else' in probs else \
                'removes-unrequested' if 'neither a requested band' in probs else \
                'garbage-remains' if 'unreferenced blocks remain' in probs else \
                'dry-run-mutates' if 'dry run' in probs else 'other'
            key = 'delete:%s:%s' % (kind, b['mode'] if not b.get('fired') else b['mode'] + ':' + b['fired'][1])
        if key in seen:
            continue
        seen.add(key)
        sc = {'kind': 'gc', 'spec': b.get('spec'), 'delete': b.get('delete'), 'dry_run': b.get('dry_run'),
              'break_lock': b.get('break_lock', False), 'concrete': b.get('concrete'), 'mirsym': {k: v for k, v in b.items() if k in ('problems', 'result', 'msg', 'where')}}
        if b.get('fired'):
            idx, verb, path, what = b['fired']
            occ = sum(1 for (i, v, p) in b.get('log', []) if v == verb and p == path and i < idx)
            sc['fired'] = [idx, verb, path, what, occ]
        out, path_ = runner.replay(sc, prop + '_gc')
        if b.get('kind') == 'panic':
            reproduced = bool(out.get('panic'))
            what_ = 'delete_bands panics: %s (fault %s)' % (b.get('msg'), sc.get('fired'))
        else:
            scan = out.get('scan') or {}
            reproduced = (spec_lock(b) and scan.get('lock_left') is False) if 'held by someone else' in ' '.join(b['problems']) else \
                bool(scan.get('damaged') or scan.get('broken_complete_bands')) if 'still listed complete' in ' '.join(b['problems']) else \
                (out.get('result') == b.get('result') or str(out.get('result', '')).startswith('Err') == str(b.get('result')).startswith('Err'))
            what_ = 'delete_bands(%s, dry_run=%s) on %s with %s: %s' % (b['delete'], b['dry_run'], json.dumps(b['spec']), sc.get('fired'), '; '.join(b['problems']))
        rep.violation(key, what_, path_, reproduced)
    if not tot['bad'] and not tot['inconclusive']:
        # conformance: explored fault-free paths re-run natively must issue the same storage operations and end the same way
        from .backup_checks import normalize_trace
        for smp in [x for x in tot['samples'] if x.get('mode') == 'none' and x.get('log')][:4]:
            sc = {'kind': 'gc', 'spec': smp['spec'], 'delete': smp['delete'], 'dry_run': smp['dry_run'], 'break_lock': smp.get('break_lock', False),
                  'concrete': smp.get('concrete')}
            out, path_ = runner.replay(sc, prop + '_conformance')
            model_ops = normalize_trace([(v, p) for (i, v, p) in smp['log']])
            native_ops = normalize_trace([(o[0], o[1]) for o in out.get('ops', [])])
            # deletion order of blocks follows hash order, which differs between model names and real hashes: compare as multisets there
            canon = lambda ops: [o for o in ops if o[0] not in ('remove_file', 'metadata') or not o[1].startswith('d/')] + \
                sorted(o[0] for o in ops if o[0] in ('remove_file', 'metadata') and o[1].startswith('d/'))
            if out.get('result') != smp.get('result') or canon(model_ops) != canon(native_ops):
                tot['inconclusive'].append('model/implementation disagreement on %s delete %s: native %s %s, model %s %s (%s)' % (
                    json.dumps(smp['spec']), smp['delete'], out.get('result'), canon(native_ops)[-6:], smp.get('result'), canon(model_ops)[-6:], path_))
            else:
                rep.diff_vectors += 1
    if tot['inconclusive']:
        rep.inconclusive += ['gc: ' + x for x in tot['inconclusive'][:5]]
        rep.add_obligation(name, 'inconclusive', st, tot['inconclusive'][:3])
    elif tot['bad']:
        rep.add_obligation(name, 'violated', st, [{k: v for k, v in b.items() if k != 'log'} for b in tot['bad'][:3]])
    else:
        rep.add_obligation(name, 'holds', st)


def _bcases(shapes, modes, **kw):
    out = []
    for kinds, classes in shapes:
        for m in modes:
            d = dict(kinds=kinds, classes=list(classes), mode=m)
            d.update(kw)
            out.append(d)
    return out


def check_C03(rep, prog, tier):
    from . import backup_checks as BC
    rep.level = 'fault_enumeration'
    dl = tier_deadline(tier, 540, 3000)
    shapes = [('F', [1]), ('FF', [1, 2]), ('DS', [0, 0])] if tier == 'quick' else \
        [('F', [1]), ('FF', [1, 2]), ('FF', [1, 1]), ('DS', [0, 0]), ('FDF', [1, 0, 2]), ('FFF', [1, 2, 3])]
    cases = _bcases(shapes, ['crash', 'empty_crash'])
    cases += _bcases([('FF', [1, 2])] if tier == 'quick' else [('FF', [1, 2]), ('FS', [1, 0])], ['crash'], prior='same')
    # a history with two interruptions: an earlier run died before writing its band head, the run under test dies anywhere
    cases += _bcases([('F', [1])], ['crash'], prior='built', prior_kinds='FF', prior_classes=[2, 3], headless_above=True)
    # nested names: a subdirectory that sorts (as a string) before a later top-level name, two entries per hunk, so that a hunk of
    # the interrupted band ends inside the subdirectory and the resume point matters in apath order
    cases.append(dict(kinds='DFFFD', classes=[0, 1, 2, 3, 0], mode='crash', prior='same', paths=['/d', '/f', '/g', '/d/e', '/d/sub'],
                      sizes=[0, 5, 6, 7, 0], fixed_opts=(64, 16, 2)))
    rep.bounds = {'cases': [BC.case_name(c) for c in cases],
                  'crash_points': 'before every storage step k of the backup, and inside every write (empty file left); k solver-chosen',
                  'follow_up': 'after each crash: list every version with the real Stitch, run the backup again, check it'}
    rep.assumptions += BC.COMMON_ASSUMPTIONS + ['storage operations are atomic except that a write may leave an empty file']
    # "every version lists per the stitching rule": also under a subtree selection (the obligation C08 and C12 run)
    subtree_listing(rep, prog, tier, tier_deadline(tier, 240, 1200))
    BC.run_cases(rep, prog, cases, dl, 'C03', 'a backup killed at any storage step leaves a consistent, listable, resumable archive',
                 require=[r'^stop:write:head', r'^stop:write:hunk', r'^stop:write:block', r'^stop:write:tail', r'^stop:create_dir:', r'^empty_stop:write:hunk',
                          r'^empty_stop:write:block', r'^empty_stop:write:tail', r'^empty_stop:write:head', r'band with several hunks', r'block shared by several files', r'file split over several blocks', r'entry refers to a block stored earlier'])


def check_C04(rep, prog, tier):
    from . import backup_checks as BC
    rep.level = 'fault_enumeration'
    dl = tier_deadline(tier, 540, 3000)
    shapes = [('F', [1]), ('FF', [1, 2]), ('FF', [1, 1])] if tier == 'quick' else \
        [('F', [1]), ('FF', [1, 2]), ('FF', [1, 1]), ('FSF', [1, 0, 1]), ('FFF', [1, 2, 3]), ('FFF', [1, 2, 1])]
    cases = _bcases(shapes, ['fault'])
    cases += _bcases([('F', [1])] if tier == 'quick' else [('FF', [1, 2])], ['fault'], prior='same')
    # a file that GREW since the previous version (same content class, solver-chosen sizes): its first block may be the block the
    # previous version refers to, a later block is new - a failure while storing the later one must leave the shared one alone
    cases += _bcases([('F', [1])], ['fault'], prior='built', prior_kinds='F', prior_classes=[1])
    rep.bounds = {'cases': [BC.case_name(c) for c in cases],
                  'faults': 'exactly one storage step k fails with one of NotFound/Other/PermissionDenied/AlreadyExists; k and kind solver-chosen'}
    rep.assumptions += BC.COMMON_ASSUMPTIONS + ['single fault per run (multi-fault sequences are outside the claim)']
    BC.run_cases(rep, prog, cases, dl, 'C04', 'any single failing storage step: no panic, no wrong/dangling content recorded, success only if complete',
                 require=[r'^fault:write:head', r'^fault:write:hunk', r'^fault:write:block', r'^fault:write:tail', r'^fault:create_dir:', r'^fault:list_dir:',
                          r'^fault:read:', r'^fault:metadata:', r'result:ok', r'result:err', r'band with several hunks', r'block shared by several files', r'file split over several blocks'])


def check_C13(rep, prog, tier):
    from . import backup_checks as BC
    dl = tier_deadline(tier, 420, 3000)
    shapes = [('F', [1]), ('FF', [1, 2]), ('FF', [1, 1]), ('DSF', [0, 0, 1]), ('FFF', [1, 2, 3])] if tier == 'quick' else \
        [('F', [1]), ('FF', [1, 2]), ('FF', [1, 1]), ('DSF', [0, 0, 1]), ('FFF', [1, 2, 3]), ('FFF', [1, 1, 2]), ('SFDF', [0, 1, 0, 2]),
         ('FFFF', [1, 2, 3, 4])]
    cases = _bcases(shapes, ['none']) + _bcases([('FF', [1, 2])], ['none'], prior='same') + \
        _bcases([('FS', [1, 0])], ['none'], sym_meta=True)
    # nested names with bytes below and above '/', files small enough to be combined (so that the hunk sort matters)
    nested = ['/a', '/a b', '/a.d', '/a/sub', '/a/sub/f', '/a b/g', '/a.d/h']
    for opts in ((64, 16, 1000), (64, 16, 3), (4, 16, 1000)):
        cases.append(dict(kinds='DDDDFFF', classes=[0, 0, 0, 0, 1, 2, 3], mode='none', paths=nested, sizes=[0, 0, 0, 0, 5, 6, 7],
                          fixed_opts=opts))
    cases.append(dict(kinds='DFF', classes=[0, 1, 2], mode='none', paths=['/sub', '/zz', '/sub/empty'], sizes=[0, 5, 0], fixed_opts=(64, 16, 1000)))
    # "everything written": also what a run writes around one failing storage step (duplicate content after a failed block write)
    cases += _bcases([('FF', [1, 1])], ['fault'])
    # ... and while the source changes under it: the last file is shorter than the listing said, or its read fails
    cases += _bcases([('FF', [1, 2])], ['none'], shrink=True) + _bcases([('FF', [1, 2])], ['none'], read_errors=True)
    rep.bounds = {'cases': [BC.case_name(c) for c in cases]}
    rep.assumptions += BC.COMMON_ASSUMPTIONS + ['the literal JSON and Snappy byte encodings are modelled, not decoded']
    BC.run_cases(rep, prog, cases, dl, 'C13', 'everything a backup writes (fault-free, and around one failing storage step) conforms to doc/format.md (independent reading of the store)',
                 require=[r'event-free run', r'band with several hunks', r'block shared by several files', r'file split over several blocks', r'entry refers to a block stored earlier'])
    naming_functions(rep, prog)


def naming_functions(rep, prog):
    """hunk_relpath / subdir_relpath / BandId::to_string / block_relpath on concrete boundary numbers vs the documented names."""
    from .interp import Explorer, Stats
    from .values import Agg, Ref
    from .harness import arch as A
    bad = []
    nums = [0, 1, 9, 10, 9999, 10000, 10001, 99999, 123456789, 999999999, 1000000000, 4294967295]

    def h(ex):
        out = []
        for n in nums:
            out.append((n, ex.call('hunk_relpath', [n]), ex.call('index::subdir_relpath', [n])))
        return out

    def on_path(ex, o):
        if o[0] != 'ok':
            bad.append(str(o[1]))
            return
        for n, hp, sp in o[1]:
            want_h = '%05d/%09d' % (n // 10000, n)
            want_s = '%05d' % (n // 10000)
            if hp != want_h or sp != want_s:
                bad.append('hunk %d named %r / %r, documented %r / %r' % (n, hp, sp, want_h, want_s))
    E = Explorer(prog, Stats())
    E.run_all(h, on_path)
    rep.functions |= E.stats.functions
    st = E.stats.as_dict()
    if E.inconclusive:
        rep.inconclusive += ['naming: ' + x for x in E.inconclusive[:3]]
        rep.add_obligation('hunk naming i/NNNNN/NNNNNNNNN', 'inconclusive', st)
    elif bad:
        rep.violation('format:hunk-naming', bad[0], '', True)
        rep.add_obligation('hunk naming i/NNNNN/NNNNNNNNN', 'violated', st, bad[:3])
    else:
        rep.add_obligation('hunk naming i/NNNNN/NNNNNNNNN (boundary numbers, concrete)', 'holds', st)


def check_C14(rep, prog, tier):
    from . import backup_checks as BC
    dl = tier_deadline(tier, 480, 3000)
    shapes = [('F', [1]), ('FF', [1, 2]), ('FF', [1, 1])] if tier == 'quick' else \
        [('F', [1]), ('FF', [1, 2]), ('FF', [1, 1]), ('FSF', [1, 0, 2]), ('FFF', [1, 2, 3])]
    cases = _bcases(shapes, ['none'], prior='same', expect_no_block_writes=True)
    cases += _bcases([('FF', [1, 2])] if tier == 'quick' else [('FF', [1, 2]), ('FF', [1, 1])], ['crash'])
    cases += _bcases([('F', [1])] if tier == 'quick' else [('FF', [1, 2])], ['crash', 'empty_crash', 'fault'], prior='same')
    # any mtime, including pre-1970 ones with a fractional part: an unchanged file must be recognised as unchanged
    cases += _bcases([('F', [1])], ['none'], prior='same', expect_no_block_writes=True, sym_meta=True)
    # a group that mixes combined small files with directly recorded entries (empty files), two entries per hunk: the resumed
    # run must cut the tree into the same combined blocks as the interrupted run did
    cases.append(dict(kinds='FFFFF', classes=[1, 2, 3, 4, 5], mode='crash', sizes=[5, 0, 6, 0, 7], fixed_opts=(64, 16, 2)))
    if tier != 'quick':
        cases.append(dict(kinds='FFFFF', classes=[1, 2, 3, 4, 5], mode='crash', sizes=[5, 0, 6, 0, 7], fixed_opts=(64, 16, 3)))
        cases.append(dict(kinds='FDFSF', classes=[1, 0, 3, 0, 5], mode='crash', sizes=[5, 0, 6, 0, 7], fixed_opts=(64, 16, 2)))
    rep.bounds = {'cases': [BC.case_name(c) for c in cases]}
    rep.assumptions += BC.COMMON_ASSUMPTIONS
    BC.run_cases(rep, prog, cases, dl, 'C14', 'unchanged tree: no block written and identical addresses; no stored block is ever written again, also when resuming after a crash',
                 require=[r'event-free run', r'^stop:write:block', r'^stop:write:hunk', r'entry refers to a block stored earlier'])


def check_C07(rep, prog, tier):
    from . import backup_checks as BC
    dl = tier_deadline(tier, 480, 3000)
    shapes = [('FF', [1, 2])] if tier == 'quick' else [('FF', [1, 2]), ('FF', [1, 1]), ('FSF', [1, 0, 2])]
    cases = _bcases(shapes, ['none', 'crash'] if tier == 'quick' else ['none', 'crash', 'empty_crash', 'fault'], prior='same')
    cases += _bcases([('F', [1])], ['none', 'crash'], prior='built', prior_kinds='FF', prior_classes=[2, 3])
    cases += _bcases([('F', [1])], ['fault'], prior='same')
    if tier == 'quick':
        # a kill inside a write leaves a zero-length file: the next backup may complete it, and removes nothing
        cases += _bcases([('F', [1])], ['empty_crash'])
    rep.bounds = {'cases': [BC.case_name(c) for c in cases]}
    rep.assumptions += BC.COMMON_ASSUMPTIONS + ['storage operations are atomic (also for the racing-backups obligation)']
    BC.run_cases(rep, prog, cases, dl, 'C07', 'a backup (complete, interrupted, faulted or resumed) only adds files; the new band id is above every existing one',
                 require=[r'event-free run', r'^stop:write:', r'entry refers to a block stored earlier'])
    band_ids(rep, prog)
    local_write(rep, prog, dl)
    racing_backups(rep, prog, tier, dl)
    # "only an explicit delete or gc removes files, and then only the requested versions' directories, unreferenced blocks
    # and its own lock file": the delete_bands obligation of C05 (quick shapes) also runs here
    gc_obligation(rep, prog, 'quick', dl, 'C07')


def racing_backups(rep, prog, tier, dl):
    """C07: two backups of differing sources interleaved at storage-operation granularity (context-bounded)."""
    from .harness import race as RC
    from .interp import parallel_explore
    bound = 2 if tier == 'quick' else 3
    rep.bounds['racing_backups'] = {'actors': 'two real backup() runs of differing trees (both keep /a of the existing version, each adds one file) on an archive with one complete version',
                                    'preemption_bound': bound, 'granularity': 'control changes hands only immediately before a storage operation', 'who_starts': 'solver-chosen'}
    res, st, fns, mods, inc = parallel_explore(prog, RC.make_race2(prog, bound), deadline=dl, max_paths=400000, step_budget=900000)
    rep.functions |= fns
    rep.models |= mods
    rep.samples += res.get('samples', [])[:1]
    stats = _stats(st)
    name = 'two racing backups (<= %d preemptions): nothing that existed changes, every file of a new version is written by one run (the loser never writes into the winner\'s band), every complete version is exactly one of the two sources, a run that reports clean success has its version' % bound
    for b in res['bad']:
        if b['kind'] == 'panic':
            rep.violation('race2:panic', 'racing backups panic: %s' % b['msg'], '', False)
            continue
        m = b.get('model') or {}
        s0, sx, sy, ss = m.get('size_0', 10), m.get('size_x', 11), m.get('size_y', 12), m.get('size_s', 13)
        f = lambda p, n, c, t: {'path': p, 'kind': 'File', 'content_len': n, 'content_class': c, 'mtime': [t, 0], 'mode': 0o644}
        sc = {'kind': 'race', 'first_tree': [f('/a', s0, 1, 10)], 'second_tree': [f('/a', s0, 1, 10), f('/s', ss, 8, 13), f('/x', sx, 5, 11)],
              'third_tree': [f('/a', s0, 1, 10), f('/s', ss, 8, 13), f('/y', sy, 6, 12)], 'schedule': [a for a, v, p in b['schedule']],
              'mirsym': {'key': b['key'], 'results': b['results'], 'problems': b['problems']}}
        out, path = runner.replay(sc, 'C07_race2')
        vers = [v for v in (out.get('versions') or []) if v.get('band') != 'b0000']
        # native sign of a shared band: a run that was not the first to write a band's head went on to write other files of it
        # (the hook sees every write before it happens; on a correct tree the second head write is refused and the run ends)
        head_by, shared = {}, []
        for who, verb, p in (out.get('ops') or []):
            if verb == 'write' and re.match(r'b\d+/', p):
                band = p.split('/')[0]
                if p.endswith('/BANDHEAD'):
                    head_by.setdefault(band, who)
                elif head_by.get(band) not in (None, who):
                    shared.append('%s wrote %s, the head is %s\'s' % (who, p, head_by[band]))
        out['shared_band_writes'] = shared[:6]
        reproduced = bool(shared) or bool(out.get('rewritten')) or any(v.get('restore_errors') or not v.get('restore_ok') or (v.get('differs_from_second_tree') and v.get('differs_from_third_tree')) for v in vers) \
            or (out.get('backup') == 'Ok errors=0' and not any(not v.get('differs_from_second_tree') for v in vers)) \
            or (out.get('gc') == 'Ok errors=0' and not any(not v.get('differs_from_third_tree') for v in vers))
        rep.violation(b['key'], '%s (results %s)' % ('; '.join(b['problems'][:2]), b['results']), path, reproduced)
    if inc:
        rep.inconclusive += ['racing backups: ' + x for x in inc[:4]]
        rep.add_obligation(name, 'inconclusive', stats, inc[:3])
    elif res['bad']:
        rep.add_obligation(name, 'violated', stats, [{k: v for k, v in b.items() if k not in ('model', 'schedule')} for b in res['bad'][:3]])
    else:
        rep.add_obligation(name, 'holds', stats)


def local_write(rep, prog, dl):
    """C07 at the storage layer: transport::local::Protocol::write from MIR over a file model."""
    from .harness import localw as LW
    from .interp import parallel_explore
    res, st, fns, mods, inc = parallel_explore(prog, LW.make_local_write(prog), deadline=dl, max_paths=10000, step_budget=400000, procs=4)
    rep.functions |= fns
    rep.models |= mods
    rep.samples += res.get('samples', [])[:2]
    rep.bounds['local_write'] = {'target before the write': LW.PRE, 'mode': ['CreateNew', 'Overwrite'], 'physical write': ['succeeds', 'may fail half-way (solver-chosen)']}
    rep.assumptions += ['tokio::fs / std::fs calls of the local transport are served by a file model with the documented semantics of fs::write, OpenOptions::open, remove_file, metadata; spawn_blocking runs its closure at once']
    name = 'local transport write: CreateNew never replaces an existing non-empty file (fails AlreadyExists, file untouched); a successful write leaves exactly the new bytes; no partial file survives a failed write'
    stats = _stats(st)
    seen = set()
    for b in sorted(res['bad'], key=lambda b: bool((b.get('case') or {}).get('flaky'))):
        if b['kind'] == 'panic':
            key, what, sc = 'local-write:panic', 'local Protocol::write panics: %s' % b['msg'], None
        else:
            c = b['case']
            key = 'local-write:%s:%s:%s' % ('create-new' if c['create_new'] else 'overwrite', c['pre'], b['problems'][0].split(':')[0].replace(' ', '-')[:40])
            what = '%s (target %s, mode %s%s)' % (b['problems'][0], c['pre'], 'CreateNew' if c['create_new'] else 'Overwrite', ', physical write failing' if c['flaky'] and not c['ok'] else '')
            sc = {'kind': 'local_write', 'pre': c['pre'], 'create_new': c['create_new'], 'mirsym': c}
        if key in seen:
            continue
        seen.add(key)
        if sc is None:
            rep.violation(key, what, '', False)
            continue
        out, path = runner.replay(sc, 'C07_localwrite')
        c = b['case']
        if c['create_new'] and c['pre'] in ('nonempty', 'identical', 'prefix'):
            was = {'nonempty': 'old', 'identical': 'new', 'prefix': 'ne'}[c['pre']]
            reproduced = bool(out.get('ok')) or out.get('content') != was or (out.get('kind') or '') != 'AlreadyExists'
        else:
            reproduced = (bool(out.get('ok')) and out.get('content') != 'new') or (not out.get('ok') and not c['flaky'] and not (c['create_new'] and c['pre'] == 'empty'))
        rep.violation(key, what, path, reproduced)
    if inc:
        rep.inconclusive += ['local write: ' + x for x in inc[:4]]
        rep.add_obligation(name, 'inconclusive', stats, inc[:3])
    elif res['bad']:
        rep.add_obligation(name, 'violated', stats, res['bad'][:4])
    else:
        rep.add_obligation(name, 'holds', stats)


def band_ids(rep, prog):
    """Band::create on any set of existing band directories (gaps, headless newest band): new id > every existing id."""
    import itertools
    from .interp import Explorer, Stats
    from .values import Ref
    from .harness import arch as A
    bad = []
    create = A.fn_by(prog, 'Band', None, 'create')

    def mk(present):
        def h(ex):
            st, ar = A.new_archive(ex)
            for b, state in present:
                st.put_dir(A.band_name(b))
                if state != 'nohead':
                    A.put_head(ex, st, b)
                if state == 'closed':
                    A.put_tail(ex, st, b, 0)
            st.put_dir('unrelated')
            st.put_file('b00x1', A.Raw(b'x'))
            st.mode = 'run'
            r = A.run_async(ex, create, [Ref([ar], 0)])
            return r, st
        return h
    paths = 0
    inc = []
    for n in (0, 1, 2, 3):
        for ids in itertools.combinations([0, 3, 12, 9999, 10000, 100000], n):
            for states in itertools.product(['nohead', 'open', 'closed'], repeat=n):
                present = list(zip(ids, states))
                E = Explorer(prog, Stats())

                def on_path(ex, o, present=present):
                    if o[0] != 'ok':
                        bad.append('Band::create with %r: %s' % (present, o[1]))
                        return
                    r, st = o[1]
                    if r.variant != 0:
                        bad.append('Band::create with %r fails' % (present,))
                        return
                    new_id = r.fields[0].fields[0].fields[0]
                    if any(new_id <= b for b, _ in present):
                        bad.append('Band::create with %r chose id %s' % (present, new_id))
                    if st.violations:
                        bad.append('Band::create with %r: %r' % (present, st.violations))
                E.run_all(mk(present), on_path)
                paths += E.stats.paths
                inc += E.inconclusive[:1]
                rep.functions |= E.stats.functions
    if inc:
        rep.inconclusive += ['band ids: ' + x for x in inc[:3]]
        rep.add_obligation('new band id above every existing id', 'inconclusive', {'paths': paths})
    elif bad:
        rep.violation('band-create:id-not-above-existing', bad[0], '', True)
        rep.add_obligation('new band id above every existing id', 'violated', {'paths': paths}, bad[:3])
    else:
        rep.add_obligation('new band id above every existing id (all subsets of up to 3 of the ids 0,3,12,9999,10000,100000 x {headless, open, closed})', 'holds', {'paths': paths})


def check_C18(rep, prog, tier):
    from .harness import diffh as D
    from .interp import parallel_explore
    dl = tier_deadline(tier, 420, 2400)
    if tier == 'quick':
        pats = ['B--', 'BSL', 'LBS', 'SLB', 'BB-']
        cb_pats = ['B--', 'BSL', 'LSB']
    else:
        pats = ['B--', 'BSL', 'LBS', 'SLB', 'BB-', 'BBB', 'SSL', 'LLS', 'S-B', 'L-B']
        cb_pats = ['B--', 'BSL', 'LSB', 'BB-', 'SBL']
    rep.bounds = {'paths': D.PATHS, 'presence_patterns (S stored only, L live only, B both, - neither)': pats,
                  'backup_callback_patterns': cb_pats,
                  'metadata': 'kind chosen by the solver from File/Dir/Symlink on each side; size, mtime (sec,nanos), mode symbolic; stored owner none|root; symlink target one of two'}
    rep.assumptions += ['the stored version is written directly in the documented format; the live tree is the modelled source walk',
                        'jiff::Timestamp modelled as (floor seconds, nanoseconds); the real conversion is covered by the C01 Kani kernel',
                        'directories and symlinks are not reported by the backup callback (the property speaks of files)']
    tot = dict(paths=0, queries=0, solver_s=0.0)
    bads, inconc = [], []
    conf_n = [0]
    for which, plist in (('diff', pats), ('diff+unchanged', pats[:3]), ('backup-callback', cb_pats)):
        for pat in plist:
            mk = D.make_cb(prog, pat) if which == 'backup-callback' else D.make(prog, pat, which == 'diff+unchanged')
            res, st, fns, mods, inc = parallel_explore(prog, mk, deadline=dl, max_paths=300000, step_budget=600000)
            tot['paths'] += st['paths']
            tot['nontrivial'] = tot.get('nontrivial', 0) + st.get('nontrivial', 0)
            tot['queries'] += st['queries']
            tot['solver_s'] += st['solver_s']
            rep.functions |= fns
            rep.models |= mods
            for b in res['bad']:
                b['which'] = which
            bads += res['bad']
            inconc += ['%s %s: %s' % (which, pat, x) for x in inc[:2]]
            if res['samples'] and len(rep.samples) < 4:
                rep.samples += [{k: v for k, v in res['samples'][0].items() if k != 'model'}]
            if res['samples'] and not res['bad'] and not inc and conf_n[0] < 6 and res['samples'][0].get('model') is not None:
                # conformance: the same stored/live pair built natively must be classified the same way by the real code
                conf_n[0] += 1
                smp = dict(res['samples'][0])
                smp['which'] = which
                sc = diff_scenario(smp)
                out, path = runner.replay(sc, 'C18_conformance')
                sig = {'Unchanged': '.', 'Added': '+', 'Deleted': '-', 'Changed': '*'}
                want = [[p_, sig[k]] for p_, k in (smp.get('backup_changes') if which == 'backup-callback' else smp.get('diff'))]
                got_native = out.get('backup_changes') if which == 'backup-callback' else out.get('diff')
                if which == 'backup-callback' and got_native is not None:
                    livekinds = {p_: k[1] for p_, k in smp['kinds'].items()}
                    got_native = [g for g in got_native if g[1] == '-' or livekinds.get(g[0]) == 'File']
                if got_native != want:
                    inconc.append('model/implementation disagreement on %s %s: native %s, model %s (%s)' % (which, pat, got_native, want, path))
                else:
                    rep.diff_vectors += 1
    # nested names with bytes below '/': the two streams must stay aligned whatever is added or removed
    nested_cases = [(['/conf/sub/x'], []), ([], ['/conf.d/y']), (['/src/m'], ['/src-old/n']), (['/conf/sub', '/conf/sub/x'], [])]
    if tier != 'quick':
        nested_cases += [(['/conf.d/y'], ['/conf/sub/x']), (['/src-old/n'], []), ([], ['/src/m'])]
    rep.bounds['nested_names'] = [p for p, _ in D.NESTED]
    rep.bounds['nested_cases (removed, added)'] = nested_cases
    for removed, added in nested_cases:
        for cbk in (False, True):
            res, st, fns, mods, inc = parallel_explore(prog, D.make_nested(prog, removed, added, cbk), deadline=dl, max_paths=20000)
            tot['paths'] += st['paths']
            tot['nontrivial'] = tot.get('nontrivial', 0) + st.get('nontrivial', 0)
            tot['queries'] += st['queries']
            tot['solver_s'] += st['solver_s']
            rep.functions |= fns
            rep.models |= mods
            for b in res['bad']:
                b['which'] = 'backup-callback' if cbk else 'diff'
            bads += res['bad']
            inconc += ['nested %s: %s' % ((removed, added), x) for x in inc[:2]]
    tot['solver_s'] = round(tot['solver_s'], 2)
    name = 'diff() and the next backup\'s change callback classify every path exactly as the real differences'
    seen = set()
    for b in bads:
        key = 'diff:%s:%s' % (b['kind'], b.get('which'))
        if key in seen:
            continue
        seen.add(key)
        sc = diff_scenario(b)
        out, path = runner.replay(sc, 'C18_diff')
        sig = {'Unchanged': '.', 'Added': '+', 'Deleted': '-', 'Changed': '*'}
        got_native = out.get('backup_changes') if b.get('which') == 'backup-callback' else out.get('diff')
        want = [[p, sig[k]] for p, k in b.get('want', [])]
        if b.get('presence') == 'nested' and got_native is not None:
            got_native = sorted([g for g in got_native if g[1] != '.'], key=lambda t: t[0])
            want = sorted(want, key=lambda t: t[0])
        elif b.get('which') == 'backup-callback' and got_native is not None:
            livekinds = {p: k[1] for p, k in b['kinds'].items()}
            got_native = [g for g in got_native if g[1] == '-' or livekinds.get(g[0]) == 'File']
        reproduced = bool(out.get('panic')) if b['kind'] == 'panic' else (got_native is not None and got_native != want)
        if any('differs from its own tree' in str(g[1]) for g in b.get('got', [])):
            # the version the backup just wrote, compared natively with the tree it was made from
            reproduced = bool(out.get('post_diff'))
        if not reproduced and b['kind'] != 'panic' and sc.get('stored') and b.get('presence') != 'nested':
            # second attempt: the stored version written by the real backup() from a tree with the stored side's metadata (a defect
            # in what conserve RECORDS does not show in an archive written directly in the documented format)
            st_tree = []
            for e in sc['stored']:
                t = {'path': e['path'], 'kind': e['kind'], 'mtime': e['mtime'], 'mode': e['mode']}
                if e['kind'] == 'File':
                    t.update(content_len=e.get('size', 0), content_class=7)
                if e['kind'] == 'Symlink':
                    t['target'] = e.get('target', 't1')
                if e.get('user') is None and e['path'] != '/':
                    t['user_unnamed'] = True
                st_tree.append(t)
            sc2 = dict(sc)
            sc2['stored_tree'] = st_tree
            out2, path2 = runner.replay(sc2, 'C18_diff')
            g2 = out2.get('backup_changes') if b.get('which') == 'backup-callback' else out2.get('diff')
            if b.get('which') == 'backup-callback' and g2 is not None:
                g2 = [g for g in g2 if g[1] == '-' or livekinds.get(g[0]) == 'File']
            if g2 is not None and g2 != want:
                reproduced, path = True, path2
        rep.violation(key, '%s on presence %s kinds %s: reported %s, real differences %s' % (
            b.get('which'), b.get('presence'), b.get('kinds'), b.get('got'), b.get('want')), path, reproduced)
    if inconc:
        rep.inconclusive += inconc[:5]
        rep.add_obligation(name, 'inconclusive', tot, inconc[:3])
    elif bads:
        rep.add_obligation(name, 'violated', tot, [{k: v for k, v in b.items() if k != 'model'} for b in bads[:3]])
    else:
        rep.add_obligation(name, 'holds', tot)


def diff_scenario(b):
    from .harness import diffh as D, backup as B_
    if b.get('presence') == 'nested':
        order = sorted(D.NESTED, key=lambda pk: B_.apath_key(pk[0]))
        stored = [{'path': '/', 'kind': 'Dir', 'mtime': [5, 0], 'mode': 0o755, 'user': 'root', 'group': 'root'}]
        live = []
        for i, (p, k) in enumerate(order):
            if p not in b.get('added', []):
                stored.append({'path': p, 'kind': k, 'size': 3 + i, 'mtime': [100 + i, 0], 'mode': 0o755 if k == 'Dir' else 0o644, 'user': 'root', 'group': 'root'})
            if p not in b.get('removed', []):
                live.append({'path': p, 'kind': k, 'content_len': 3 + i, 'content_class': 50 + i, 'mtime': [100 + i, 0], 'mode': 0o755 if k == 'Dir' else 0o644})
        live = live + [{'path': '/', 'kind': 'Dir', 'mtime': [5, 0], 'mode': 0o755}]
        return {'kind': 'diff', 'stored': stored, 'live': live, 'include_unchanged': False, 'backup_changes': b.get('which') == 'backup-callback',
                'mirsym': {k: v for k, v in b.items() if k in ('got', 'want', 'which')}}
    m = b.get('model') or {}
    stored, live = [{'path': '/', 'kind': 'Dir', 'mtime': [5, 0], 'mode': 0o755, 'user': 'root', 'group': 'root'}], []
    for p, pr in zip(D.PATHS, b['presence']):
        c = p[1]
        sk, lk = b['kinds'][p]
        if pr in 'SB':
            e = {'path': p, 'kind': sk, 'size': max(0, m.get('s%ssize' % c, 1)) if sk == 'File' else 0,
                 'mtime': [m.get('s%ssec' % c, 0), m.get('s%sns' % c, 0)], 'mode': m.get('s%smode' % c, 0),
                 'user': 'root' if m.get('s%suser' % c, 1) else None, 'group': 'root', 'target': 't%d' % m.get('s%stgt' % c, 1)}
            stored.append(e)
        if pr in 'LB':
            mode = m.get('l%smode' % c, 0o644)
            e = {'path': p, 'kind': lk, 'content_len': max(0, m.get('l%ssize' % c, 1)) if lk == 'File' else 0, 'content_class': ord(c),
                 'mtime': [m.get('l%ssec' % c, 0), m.get('l%sns' % c, 0)], 'mode': mode, 'target': 't%d' % m.get('l%stgt' % c, 1)}
            if pr == 'B' and not m.get('l%suser' % c, 1):
                e['user_unnamed'] = True      # the model's half-named owner: a user id without a name, group root
            live.append(e)
    # the live root must look unchanged: same mtime/mode as stored (set last by make_tree)
    live = [{'path': '/', 'kind': 'Dir', 'mtime': [5, 0], 'mode': 0o755}] + live
    return {'kind': 'diff', 'stored': stored, 'live': live, 'include_unchanged': b.get('include_unchanged', False),
            'backup_changes': b.get('which') == 'backup-callback', 'mirsym': {k: v for k, v in b.items() if k in ('got', 'want', 'which')}}


def run_restore_obligation(rep, prog, name, mk, dl, prop, judge):
    """judge(bad, native_output) -> (key, what, reproduced)"""
    from .interp import parallel_explore
    res, st, fns, mods, inc = parallel_explore(prog, mk, deadline=dl, max_paths=200000, step_budget=600000)
    rep.functions |= fns
    rep.models |= mods
    if res.get('samples') and len(rep.samples) < 4:
        rep.samples += res['samples'][:1]
    if not res['bad'] and not inc:
        # conformance: an explored restore re-run natively into a sandbox must end the same way and leave the outside alone
        for smp in [x for x in res.get('samples', []) if x.get('scenario')][:2]:
            sc = dict(smp['scenario'])
            sc['kind'] = 'restore_raw'
            out, path = runner.replay(sc, prop + '_conformance')
            native_ok = str(out.get('result', '')).startswith('Ok')
            if out.get('panic') or native_ok != (smp.get('result') == 'Ok') or bool(out.get('errors')) != bool(smp.get('errors')) or out.get('outside_changed'):
                inc = list(inc) + ['model/implementation disagreement: native %s errors=%s outside_changed=%s, model %s errors=%s (%s)' % (
                    out.get('result'), len(out.get('errors') or []), out.get('outside_changed'), smp.get('result'), smp.get('errors'), path)]
            else:
                rep.diff_vectors += 1
    stats = _stats(st)
    seen = set()
    for b in res['bad']:
        sc = dict(b.get('scenario') or {})
        sc['kind'] = 'restore_raw'
        sc['mirsym'] = {k: v for k, v in b.items() if k in ('problems', 'msg', 'where', 'target', 'syscalls')}
        out, path = runner.replay(sc, prop + '_restore') if b.get('scenario') else ({}, '')
        key, what, reproduced = judge(b, out)
        if key in seen:
            continue
        seen.add(key)
        rep.violation(key, what, path, reproduced)
    if inc:
        rep.inconclusive += ['%s: %s' % (name, x) for x in inc[:4]]
        rep.add_obligation(name, 'inconclusive', stats, inc[:3])
    elif res['bad']:
        rep.add_obligation(name, 'violated', stats, [{k: v for k, v in b.items() if k not in ('model', 'scenario')} for b in res['bad'][:3]])
    else:
        rep.add_obligation(name, 'holds', stats)


def _judge_escape(b, out):
    if b['kind'] == 'panic':
        return 'restore:panic', 'restore panics: %s' % b.get('msg'), bool(out.get('panic'))
    return ('restore:outside-destination:%s' % ('stitched' if b.get('stitched') else 'single'),
            'restore with symlink target %r: %s' % (b.get('target'), '; '.join(b['problems'][:3])), bool(out.get('outside_changed')))


def _judge_refuse(b, out):
    if b['kind'] == 'panic':
        return 'restore:panic', 'restore panics: %s' % b.get('msg'), bool(out.get('panic'))
    refused = str(out.get('result', '')).startswith('Err') and 'DestinationNotEmpty' in str(out.get('result'))
    if any('outside the destination' in p for p in b['problems']):
        return ('restore:escape:overwrite:%s' % b.get('dest'), 'dest %s overwrite=%s: %s' % (b.get('dest'), b.get('overwrite'), '; '.join(b['problems'][:3])),
                bool(out.get('outside_changed')))
    return ('restore:refusal:%s' % b.get('dest'), 'dest %s overwrite=%s: %s' % (b.get('dest'), b.get('overwrite'), '; '.join(b['problems'][:3])),
            (not refused) or bool(out.get('whole_changed')))


def _judge_meta(b, out):
    if b['kind'] == 'panic':
        return 'restore:panic', 'restore panics: %s' % b.get('msg'), bool(out.get('panic'))
    probs = '; '.join(b['problems'][:3])
    kind = 'mode' if 'mode bits' in probs else 'mtime' if 'mtime' in probs else 'owner' if 'owner' in probs else \
        'content' if 'content' in probs else 'errors' if 'reported errors' in probs or 'failed' in probs else 'other'
    repro = False
    ents = {e['path']: e for band in (b.get('scenario') or {}).get('bands', []) for e in band['entries']}
    for v in out.get('inside_after') or []:
        p = v['path'][len('/dest'):] or '/'
        e = ents.get(p)
        if not e:
            continue
        if kind == 'mode' and e.get('mode') is not None and v.get('mode') is not None and v['mode'] != e['mode']:
            repro = True
        if kind == 'mtime' and v.get('mtime') != e.get('mtime'):
            repro = True
    if kind == 'content' and 'content_mismatches' in out and any(e.get('parts') for e in ents.values()):
        repro = bool(out.get('content_mismatches')) or bool(out.get('errors'))
    elif kind in ('errors', 'content', 'other', 'owner'):
        repro = bool(out.get('errors')) or str(out.get('result', '')).startswith('Err') or kind in ('content', 'owner', 'other')
    return 'restore:attribute:%s' % kind, 'restore does not reproduce the archived attributes: %s' % probs, repro


def _judge_only(b, out):
    if b['kind'] == 'panic':
        return 'restore:panic', 'restore panics: %s' % b.get('msg'), bool(out.get('panic'))
    return 'restore:only-subtree', 'restore --only %s: %s' % (b.get('subtree'), '; '.join(b['problems'][:3])), True


def check_C16(rep, prog, tier):
    from .harness import restoreh as R, apath as A
    dl = tier_deadline(tier, 300, 1800)
    A.setup(prog)
    rep.bounds = {'symlink_targets': R.TARGETS, 'destination': R.DEST, 'sentinels': sorted(R.OUTSIDE),
                  'versions': 'one closed band with dir/file/symlink; and an interrupted band whose /a is a symlink stitched onto a band where /a is a directory with children',
                  'apath_code_points': 8 if tier == 'quick' else 10}
    rep.assumptions += ['file-system model mirsym/harness/restoreh.py: open(O_CREAT), chmod, utimes follow symlinks; lchown, lutimes, symlink(2), lstat do not; chown clears setuid/setgid',
                        'archives are conserve-written: entry paths are valid apaths (the C13 check); deserialisation itself does not validate them',
                        'pre-existing hostile symlinks in the destination together with overwrite are outside the claim']
    A.ob_restore_join(rep, prog, 8 if tier == 'quick' else 10, dl)
    run_restore_obligation(rep, prog, 'restore touches nothing outside the destination (one version, solver-chosen symlink target)',
                           R.make_contain(prog, False), dl, 'C16', _judge_escape)
    run_restore_obligation(rep, prog, 'restore touches nothing outside the destination (interrupted version stitched over a directory turned symlink)',
                           R.make_contain(prog, True), dl, 'C16', _judge_escape)
    run_restore_obligation(rep, prog, 'a non-empty destination is refused without overwrite, before any change',
                           R.make_refuse(prog), dl, 'C16', _judge_refuse)


def kani_obligations(rep, specs, timeout_s=1500):
    """specs: [(harness, expect 'success'|'failed', description, on_fail(playback)->(key, what, scenario))]"""
    from . import kani
    names = [sp[0] for sp in specs]
    results = kani.run_many(names, timeout_s, playback_on_fail=[sp[0] for sp in specs if sp[1] == 'success'])
    for name, expect, desc, on_fail in specs:
        r = results[name]
        stats = {k: r.get(k) for k in ('checks', 'covers', 'cbmc_s', 'time_s', 'n_failed')}
        stats['queries'] = 1
        stats['paths'] = 1
        rep.functions.add('kani:proofs::' + name)
        if r['status'] == 'inconclusive':
            rep.inconclusive.append('kani %s: %s %s' % (name, r.get('why'), (r.get('tail') or '')[-300:]))
            rep.add_obligation('[Kani] ' + desc, 'inconclusive', stats)
        elif expect == 'failed':
            # reachability twin: the final assert(false) must be reachable
            if r['status'] == 'failed' and any('reachability witness' in f[0] for f in r['failed']):
                rep.add_obligation('[Kani] ' + desc, 'holds', stats)
            else:
                rep.inconclusive.append('kani %s: reachability witness not reached (harness vacuous?)' % name)
                rep.add_obligation('[Kani] ' + desc, 'inconclusive', stats)
        elif r['status'] == 'success':
            if r.get('covers') and r['covers'][0] != r['covers'][1]:
                rep.inconclusive.append('kani %s: cover properties %s' % (name, r['covers']))
                rep.add_obligation('[Kani] ' + desc, 'inconclusive', stats)
            else:
                rep.add_obligation('[Kani] ' + desc, 'holds', stats)
        else:
            key, what, sc = on_fail(r)
            out, path = runner.replay(sc, rep.prop + '_kani') if sc else ({}, '')
            reproduced = bool(out.get('panic')) or bool(out.get('mismatches')) or bool(out.get('restore_errors')) or bool(out.get('backup_errors'))
            rep.violation(key, what, path, reproduced if sc else False)
            rep.add_obligation('[Kani] ' + desc, 'violated', stats, r['failed'][:3])
    return results


def _mtime_fail(r):
    from . import kani
    pb = r.get('playback') or []
    vals = [v for v in pb if len(v) in (8, 4)]
    sec = kani.le_int(vals[0]) if vals and len(vals[0]) == 8 else -2
    nsec = kani.le_int(vals[1]) if len(vals) > 1 and len(vals[1]) == 4 else 500000000
    where = '; '.join('%s (%s:%s in %s)' % f for f in r['failed'][:2])
    sc = {'kind': 'roundtrip', 'files': [{'path': '/f', 'kind': 'File', 'content_len': 3, 'mode': 0o644, 'mtime': [sec, nsec]}], 'options': {}}
    site = r['failed'][0][3].split('::')[-1] if r['failed'] else 'unknown'
    return 'mtime:roundtrip:' + site, 'a file mtime of (%d s, %d ns) does not survive backup+restore: %s' % (sec, nsec, where), sc


def check_C01(rep, prog, tier):
    from .harness import restoreh as R
    from . import backup_checks as BC
    dl = tier_deadline(tier, 540, 3000)
    rep.bounds = {'kani': 'mtime seconds in (-3e10, 3e10), every nanosecond value, unwind 3',
                  'restore': 'one version with dir/file/nested file/symlink; mode bits, mtimes (sec, nanos incl. pre-1970), owner presence, file sizes symbolic; chown permitted and not',
                  'backup': 'see cases'}
    rep.assumptions += ['[Kani] the real jiff and filetime code is executed; the file system calls themselves are outside',
                        'restore runs over the file-system model (mirsym/harness/restoreh.py); uid/gid lookup modelled as identity on names',
                        'composition backup -> archive entry -> restore is by the two obligations below sharing the archive entry as interface'] + BC.COMMON_ASSUMPTIONS
    kani_obligations(rep, [
        ('mtime_roundtrip', 'success', 'mtime (floor seconds, nanos) -> metadata_from -> IndexEntry::mtime -> ToFileTime is the identity and never panics', _mtime_fail),
        ('mtime_roundtrip_reachable', 'failed', 'reachability twin of the mtime harness', None),
    ])
    run_restore_obligation(rep, prog, 'restore reproduces kind, bytes, target, mtime, all 12 mode bits and owner of every entry (chown permitted)',
                           R.make_meta(prog, True), dl, 'C01', _judge_meta)
    run_restore_obligation(rep, prog, 'restore reproduces kind, bytes, target, mtime and mode when chown is not permitted',
                           R.make_meta(prog, False), dl, 'C01', _judge_meta)
    rep.bounds['odd_names'] = R.ODD_NAMES
    run_restore_obligation(rep, prog, 'entries with unusual but legal names (control characters, bytes below "/", DEL, multi-byte, dots) restore like any other',
                           R.make_names(prog), dl, 'C01', _judge_meta)
    shapes = [('F', [1]), ('FF', [1, 2]), ('FF', [1, 1])] if tier == 'quick' else [('F', [1]), ('FF', [1, 2]), ('FF', [1, 1]), ('FFF', [1, 2, 3]), ('DSF', [0, 0, 1])]
    cases = _bcases(shapes, ['none']) + _bcases([('FS', [1, 0])], ['none'], sym_meta=True)
    rep.bounds['backup_cases'] = [BC.case_name(c) for c in cases]
    BC.run_cases(rep, prog, cases, dl, 'C01', 'a fault-free backup records every entry with the source\'s metadata and addresses that resolve to exactly the file\'s bytes, without errors',
                 require=[r'event-free run', r'band with several hunks', r'block shared by several files', r'file split over several blocks'])
    # the entry list those cases start from is what the real source walk produces: every entry of the tree exactly once, a symlink
    # as a link whatever it points at (the walk obligation of C11, on a shape with a link to a sibling directory and a nested one)
    walk_order(rep, prog, tier, dl, shapes=[([('D', ['F']), 'L', 'F'], [1, 1, 1, 2]), ([('D', [('D', ['F']), 'F']), 'S', 'F'], [1, 1, 2])])


def _damage_obligation(rep, prog, name, mk, dl, prop, native=None):
    from .interp import parallel_explore
    res, st, fns, mods, inc = parallel_explore(prog, mk, deadline=dl, max_paths=200000, step_budget=600000)
    rep.functions |= fns
    rep.models |= mods
    if res.get('samples') and len(rep.samples) < 5:
        rep.samples += res['samples'][:1]
    stats = _stats(st)
    seen = set()
    for b in res['bad']:
        site = ''
        if b['kind'] == 'panic':
            import re as _re
            site = ':' + _re.sub(r'<impl at [^>]*>', '', b.get('where') or '').split(' ')[0].replace('::::', '::')
        key = 'damage:%s:%s:%s%s' % (b['kind'], b.get('op'), (b.get('target') or b.get('apath') or '') + ('/' + b['how'] if b.get('how') else ''), site)
        if b.get('site'):
            # a recorded situation is identified by what fails, not by how the hunk was damaged
            key = 'damage:%s:%s:%s:%s' % (b['kind'], b.get('op'), b.get('target'), b['site'])
        if key in seen:
            continue
        seen.add(key)
        sc, judge = (native(b) if native else (None, None))
        out, path = runner.replay(sc, prop + '_damage') if sc else ({}, '')
        reproduced = judge(out) if sc else False
        what = '%s after damage %s: %s' % (b.get('op'), {k: v for k, v in b.items() if k in ('target', 'how', 'entry', 'apath', 'version')},
                                          b.get('msg') or '; '.join(b.get('problems', [])[:3]))
        rep.violation(key, what[:600], path, reproduced)
    if inc:
        rep.inconclusive += ['%s: %s' % (name, x) for x in inc[:4]]
        rep.add_obligation(name, 'inconclusive', stats, inc[:3])
    elif res['bad']:
        rep.add_obligation(name, 'violated', stats, [{k: v for k, v in b.items() if k != 'model'} for b in res['bad'][:3]])
    else:
        rep.add_obligation(name, 'holds', stats)
    return res


def _two_hunk_native(validate_quick=None):
    """Native scenario for the two-hunk archive of harness/damage.py."""
    def f(b):
        tmap = {'head': 'b0000/BANDHEAD', 'tail': 'b0000/BANDTAIL', 'hunk0': 'b0000/i/00000/000000000', 'hunk1': 'b0000/i/00000/000000001',
                'blockA': 'block:/a', 'blockB': 'block:/b'}
        sc = {'kind': 'restore_raw', 'restore_band': 0, 'damage': [{'file': tmap[b['target']], 'how': b['how']}],
              'bands': [{'band': 0, 'closed': True, 'entries': [
                  {'path': '/', 'kind': 'Dir', 'mode': 0o755, 'mtime': [1, 0], 'hunk': 0},
                  {'path': '/a', 'kind': 'File', 'size': 7, 'class': 1, 'mode': 0o644, 'mtime': [2, 0], 'hunk': 0},
                  {'path': '/b', 'kind': 'File', 'size': 9, 'class': 2, 'mode': 0o600, 'mtime': [3, 0], 'hunk': 1}]}]}
        if b.get('op') == 'validate':
            sc['validate_quick'] = bool(b.get('quick'))

        def judge(out):
            if b['kind'] == 'panic':
                return bool(out.get('panic'))
            if b.get('op') == 'validate':
                return out.get('validate_ok') is True and not out.get('validate_errors')
            restored = {v['path'] for v in out.get('inside_after') or []}
            lost = not {'/dest/a', '/dest/b'} <= restored
            return (lost and not out.get('errors')) or any('untouched' in p for p in b.get('problems', []))
        return sc, judge
    return f


def _history_native(variant):
    """Native scenario for the histories of harness/damage.py build_history."""
    def f(b):
        newest_closed = b.get('newest_closed', True)
        szs = b.get('sizes') or {}
        if variant == 'multi':
            sa, sm, sn = min(szs.get('sizeA', 7), 4096), min(szs.get('sizeM', 9), 4096), min(szs.get('sizeN', 5), 4096)
            bands = [{'band': 0, 'closed': True, 'entries': [
                {'path': '/', 'kind': 'Dir', 'mode': 0o755, 'mtime': [1, 0]},
                {'path': '/a', 'kind': 'File', 'size': sa, 'class': 1, 'mode': 0o644, 'mtime': [2, 0]},
                {'path': '/m', 'kind': 'File', 'blocks': [sm, sn], 'size': sm + sn, 'class': 5, 'mode': 0o644, 'mtime': [4, 0]}]}]
        elif variant == 'deep':
            bands = [{'band': 0, 'closed': True, 'entries': [
                {'path': '/', 'kind': 'Dir', 'mode': 0o755, 'mtime': [1, 0], 'hunk': 0},
                {'path': '/a', 'kind': 'File', 'size': 7, 'class': 1, 'mode': 0o644, 'mtime': [2, 0], 'hunk': 0},
                {'path': '/b', 'kind': 'File', 'size': 9, 'class': 2, 'mode': 0o600, 'mtime': [3, 0], 'hunk': 1},
                {'path': '/c', 'kind': 'File', 'size': 6, 'class': 3, 'mode': 0o644, 'mtime': [4, 0], 'hunk': 2}]},
                {'band': 1, 'closed': False, 'entries': [
                    {'path': '/', 'kind': 'Dir', 'mode': 0o755, 'mtime': [1, 0], 'hunk': 0},
                    {'path': '/a', 'kind': 'File', 'size': 8, 'class': 4, 'mode': 0o644, 'mtime': [5, 0], 'hunk': 0},
                    {'path': '/b', 'kind': 'File', 'size': 9, 'class': 2, 'mode': 0o600, 'mtime': [3, 0], 'hunk': 1}]}]
        elif variant == 'chain':
            bands = [{'band': 0, 'closed': True, 'entries': [
                {'path': '/', 'kind': 'Dir', 'mode': 0o755, 'mtime': [1, 0]},
                {'path': '/a', 'kind': 'File', 'size': 7, 'class': 1, 'mode': 0o644, 'mtime': [2, 0]},
                {'path': '/z', 'kind': 'File', 'size': 8, 'class': 4, 'mode': 0o644, 'mtime': [4, 0]}]},
                {'band': 1, 'closed': False, 'entries': [
                    {'path': '/', 'kind': 'Dir', 'mode': 0o755, 'mtime': [1, 0]},
                    {'path': '/a', 'kind': 'File', 'size': 9, 'class': 2, 'mode': 0o644, 'mtime': [5, 0]}]},
                {'band': 2, 'closed': False, 'entries': [{'path': '/', 'kind': 'Dir', 'mode': 0o755, 'mtime': [1, 0]}]}]
        elif variant == 'subdir':
            bands = [{'band': 0, 'closed': True, 'entries': [
                {'path': '/', 'kind': 'Dir', 'mode': 0o755, 'mtime': [1, 0], 'hunk': 0},
                {'path': '/d', 'kind': 'Dir', 'mode': 0o750, 'mtime': [2, 0], 'hunk': 0},
                {'path': '/d/f', 'kind': 'File', 'size': 7, 'class': 1, 'mode': 0o644, 'mtime': [3, 0], 'hunk': 1}]}]
        elif variant == 'single':
            bands = [{'band': 0, 'closed': bool(newest_closed), 'entries': [
                {'path': '/', 'kind': 'Dir', 'mode': 0o755, 'mtime': [1, 0], 'hunk': 0},
                {'path': '/a', 'kind': 'File', 'size': 7, 'class': 1, 'mode': 0o644, 'mtime': [2, 0], 'hunk': 0},
                {'path': '/a2', 'kind': 'File', 'size': 7, 'class': 1, 'mode': 0o644, 'mtime': [2, 0], 'hunk': 0},
                {'path': '/b', 'kind': 'File', 'size': 9, 'class': 2, 'mode': 0o600, 'mtime': [3, 0], 'hunk': 1}]}]
            blockof = {'A': '/a', 'B': '/b'}
        else:
            bands = [{'band': 0, 'closed': True, 'entries': [
                {'path': '/', 'kind': 'Dir', 'mode': 0o755, 'mtime': [1, 0]},
                {'path': '/a', 'kind': 'File', 'size': 7, 'class': 1, 'mode': 0o644, 'mtime': [2, 0]},
                {'path': '/z', 'kind': 'File', 'size': 8, 'class': 4, 'mode': 0o644, 'mtime': [4, 0]}]},
                {'band': 1, 'closed': bool(newest_closed), 'entries': [
                    {'path': '/', 'kind': 'Dir', 'mode': 0o755, 'mtime': [1, 0]},
                    {'path': '/a', 'kind': 'File', 'size': 7, 'class': 1, 'mode': 0o644, 'mtime': [2, 0]},
                    {'path': '/c', 'kind': 'File', 'size': 6, 'class': 3, 'mode': 0o644, 'mtime': [5, 0]}]}]
        path = b.get('path') or ''
        if path.startswith('d/'):
            # which block: by hash id order of creation (A, B | A, Z, C)
            order = ['/a', '/z', '/a@1'] if variant == 'chain' else ['/d/f'] if variant == 'subdir' else ['/a', '/b'] if variant == 'single' else ['/m#0', '/m#1', '/a'] if variant == 'multi' else \
                ['/a', '/b', '/c', '/a@1'] if variant == 'deep' else ['/a', '/z', '/c']
            import re as _re
            m = _re.match(r'd/\w+/[0-9a-f]{3}([0-9a-f]{125})$', path)
            idx = int(m.group(1), 16) - 1 if m else 0
            target = 'block:' + order[min(idx, len(order) - 1)]
        else:
            target = path
        sc = {'kind': 'restore_raw', 'restore_band': b.get('band') if b.get('band') is not None else (1 if variant == 'two' else 0),
              'damage': [{'file': target, 'how': b.get('how')}], 'bands': bands}
        if b.get('op') == 'validate':
            sc['validate_quick'] = bool(b.get('quick'))
        if b.get('op') == 'backup':
            if variant == 'multi':
                sc['backup_after'] = [{'path': '/', 'kind': 'Dir', 'mode': 0o755, 'mtime': [1, 0]},
                                      {'path': '/a', 'kind': 'File', 'size': sa, 'class': 1, 'mode': 0o644, 'mtime': [2, 0]},
                                      {'path': '/m', 'kind': 'File', 'size': sm + sn, 'class': 5, 'mode': 0o644, 'mtime': [4, 0]}]
            else:
                sc['backup_after'] = [{'path': '/', 'kind': 'Dir', 'mode': 0o755, 'mtime': [1, 0]},
                                      {'path': '/a', 'kind': 'File', 'size': 10, 'class': 1, 'mode': 0o644, 'mtime': [2, 0]},
                                      {'path': '/b', 'kind': 'File', 'size': 12, 'class': 2, 'mode': 0o600, 'mtime': [3, 0]}]
                for bd in bands:
                    for e in bd['entries']:
                        if e['path'] == '/a':
                            e['size'] = 10 if szs.get('sizeA', 10) == 10 else 7

        def judge(out):
            if b['kind'] == 'panic':
                return bool(out.get('panic'))
            if b.get('op') == 'validate':
                return out.get('validate_ok') is True and not out.get('validate_errors')
            if b.get('op') == 'backup':
                ab = out.get('after_backup') or {}
                return bool(ab) and (not ab.get('ok') or bool(ab.get('stat_errors')) or bool(ab.get('errors')) or not ab.get('restore_ok')
                                     or bool(ab.get('restore_errors')) or bool(ab.get('mismatches')))
            # files that the model says are not restored although nothing of theirs was damaged: natively they must be missing
            # from the destination too (or come back with wrong bytes)
            import re as _re2
            named = [m_.group(1) for p in b.get('problems', []) for m_ in [_re2.match(r'^(/\S+?)(?: of band \d+ \(index hunk|, which version)', p)] if m_]
            if named:
                restored = {v['path'] for v in out.get('inside_after') or []}
                wrong = {str(x) for x in (out.get('content_mismatches') or [])}
                return any(('/dest' + q) not in restored or any(q in w for w in wrong) for q in named)
            return not out.get('errors') or any('altered bytes' in p for p in b.get('problems', []))
        return sc, judge
    return f


def _decoded_native(b):
    e = b.get('entry') or {}
    m = b.get('model') or {}
    ent = {'path': '/m' if b.get('apath', 'valid') == 'valid' else b['apath'], 'kind': e.get('kind', 'File'), 'size': 0, 'mode': 0o644,
           'mtime': [e.get('mtime', 0), e.get('nanos', 0)]}
    if e.get('has_target'):
        ent['target'] = 't'
    if e.get('naddr'):
        U64 = (1 << 64) - 1
        ent['addr_raw'] = {'present': bool(m.get('wblock_present', True)), 'class': 5, 'block_len': 10,
                           'start': min(max(int(m.get('wstart', 0)), 0), U64), 'len': min(max(int(m.get('wlen', 0)), 0), U64)}
        if e.get('naddr') == 2:
            ent['addr_raw']['second'] = {'start': min(max(int(m.get('wstart2', 0)), 0), U64), 'len': min(max(int(m.get('wlen2', 0)), 0), U64)}
    sc = {'kind': 'restore_raw', 'restore_band': 0, 'raw_entries': True,
          'bands': [{'band': 0, 'closed': True, 'band_format_version': b.get('version', '0.6.3'),
                     'tail_count': ([0, 1, 2, 9, (1 << 64) - 1][min(max(int(m.get('wtail_count_i', 1)), 0), 4)] if m.get('wtail_count_present', True) else None),
                     'entries': [
              {'path': '/', 'kind': 'Dir', 'mode': 0o755, 'mtime': [1, 0]}, ent,
              {'path': '/n', 'kind': 'File', 'size': 10, 'class': 5, 'mode': 0o644, 'mtime': [3, 0]}]}]}
    if b.get('op') == 'backup':
        # the source tree of the decoded-layer backup obligation (harness/damage.py make_decoded)
        sc['backup_after'] = [{'path': '/', 'kind': 'Dir', 'mode': 0o755, 'mtime': [1, 0]},
                              {'path': '/m', 'kind': 'File', 'size': 4, 'class': 9, 'mode': 0o644, 'mtime': [50, 0]},
                              {'path': '/n', 'kind': 'File', 'size': 10, 'class': 5, 'mode': 0o644, 'mtime': [3, 0]}]
    return sc, (lambda out: bool(out.get('panic')) if b['kind'] == 'panic' else True)


def check_C10(rep, prog, tier):
    from .harness import damage as D
    rep.level = 'fault_enumeration'
    dl = tier_deadline(tier, 480, 2400)
    rep.bounds = {'decoded_entry': 'kind any of 4, mtime any i64, mtime_nanos any u32, target present or not, 0-1 address with start/len any u64 into a present or missing block, mode any u32; apath variants valid, "", "a", "/..", "/a//b"; band_format_version valid or unparseable',
                  'containment': 'band of two hunks and two blocks; one of head/tail/hunk0/hunk1/blockA/blockB deleted, emptied or replaced by undecodable bytes (solver-chosen)',
                  'operations': ['restore', 'list', 'validate (full and quick)', 'backup using the damaged version as basis', 'new backup after the damage']}
    rep.assumptions += ['"garbage" and bit flips enter as "decoder returns an error" or "decodes to arbitrary field values": snap, serde_json, hex and semver parsers are not executed (hangs inside them are outside the claim)',
                        'file-system model for restore; store model for the archive']
    kani_obligations(rep, [('checked_decoded_mtime_never_panics', 'success',
                            'the (mtime, nanos) range admitted by IndexEntry::check() never panics in IndexEntry::mtime / ToFileTime', lambda r: ('decoded-mtime:panic', 'decoded mtime admitted by check() panics: %s' % (r['failed'][:1],), None))])
    for op in ['restore', 'list', 'validate', 'backup']:
        _damage_obligation(rep, prog, 'arbitrary decoded index entry: %s neither panics nor loses the intact entry silently' % op,
                           D.make_decoded(prog, op), dl, 'C10', _decoded_native)
    for ap in ['', 'a', '/..', '/a//b']:
        _damage_obligation(rep, prog, 'decoded apath %r: restore does not panic or escape' % ap, D.make_decoded(prog, 'restore', ap), dl, 'C10', _decoded_native)
    _damage_obligation(rep, prog, 'unparseable band_format_version: listing does not panic', D.make_decoded(prog, 'list', 'valid', 'x.y'), dl, 'C10', _decoded_native)
    for variant in ['single', 'two', 'multi', 'subdir', 'chain'] + (['deep'] if tier != 'quick' else []):
        for op in ['restore', 'backup']:
            if variant in ('subdir', 'chain') and op == 'backup':
                continue
            _damage_obligation(rep, prog, 'one damaged file (%s history): %s does not panic, intact files are exact, lost files are reported' % ({'single': 'single-version', 'two': 'two-version', 'multi': 'two-block-file', 'deep': 'three-hunk band under an unfinished band', 'subdir': 'directory and its file in different hunks', 'chain': 'two unfinished versions over a finished one'}[variant], op),
                               D.make_contained(prog, op, variant), dl, 'C10', _history_native(variant))


def check_C09(rep, prog, tier):
    from .harness import damage as D
    from . import backup_checks as BC
    rep.level = 'fault_enumeration'
    dl = tier_deadline(tier, 480, 2400)
    rep.bounds = {'damage': 'band of two hunks and two blocks; one of head/tail/hunk0/hunk1/blockA/blockB deleted, emptied or made undecodable; full and quick validation',
                  'healthy': 'archives written by the real backup() (one version, two versions, interrupted with header at every crash point) then validated'}
    rep.assumptions += ['altered block bytes are modelled as "decompression or hash check fails"; the real decoder is not executed',
                        'BlockDir::validate runs through the JoinSet model (tasks run in spawn order)'] + BC.COMMON_ASSUMPTIONS[:3]
    for variant in ['single', 'two'] + (['deep'] if tier != 'quick' else []):
        _damage_obligation(rep, prog, 'validate reports at least one error whenever the damage changes what a version restores to (%s history)' % (
            {'single': 'single-version', 'two': 'two-version', 'deep': 'three-hunk band under an unfinished two-hunk band'}[variant]),
                           D.make_contained(prog, 'validate', variant), dl, 'C09', _history_native(variant))
    shapes = [('FF', [1, 2])] if tier == 'quick' else [('FF', [1, 2]), ('FF', [1, 1]), ('FSD', [1, 0, 0])]
    cases = _bcases(shapes, ['none', 'crash', 'empty_crash'], validate_after=True) + _bcases([('F', [1])], ['none'], prior='same', validate_after=True)
    rep.bounds['healthy_cases'] = [BC.case_name(c) for c in cases]
    BC.run_cases(rep, prog, cases, dl, 'C09', 'validate (full and quick) is silent on archives produced by fault-free and interrupted backups',
                 require=[r'event-free run', r'^stop:write:hunk', r'^stop:write:block', r'^empty_stop:write:hunk'])


def check_C02(rep, prog, tier):
    from .harness import backup as B
    from . import backup_checks as BC
    from .interp import parallel_explore
    import itertools
    dl = tier_deadline(tier, 480, 3000)
    rep.bounds = {'reuse': 'basis entry and source entry of one file with solver-chosen (seconds, nanoseconds) mtimes and sizes; content changed or not',
                  'selection': 'band-id sets drawn from 0,3,9998,9999,10000,100000 (up to 3 ids), each band open or closed',
                  'history': 'on one Archive value: backup(T1); backup(T2: /a rewritten, /b added with the content of /c); delete the first version; backup(T2) again; backup(T1 content again, newer mtime); symbolic sizes and options; every completed version checked after every step'}
    rep.assumptions += BC.COMMON_ASSUMPTIONS + [
        'arbitrary histories are covered as an inductive step, not as a search: an operation preserves every other completed version if it never changes an existing file (C07), records only correct entries (C03/C04/C13), removes only unreferenced blocks (C05) and lists by the stitching rule (C08); one concrete bounded history is explored in addition',
        'the property\'s premise is assumed: a content change comes with a new mtime or a new size']

    conf_n = [0]

    def run(name, mk, judge=None):
        res, st, fns, mods, inc = parallel_explore(prog, mk, deadline=dl, max_paths=200000, step_budget=900000)
        rep.functions |= fns
        rep.models |= mods
        if res.get('samples') and len(rep.samples) < 4:
            rep.samples += res['samples'][:1]
        if res.get('samples') and not res['bad'] and not inc and 'ids' in res['samples'][0] and conf_n[0] < 8:
            # conformance: the same band set written natively must be resolved the same way by the real code
            conf_n[0] += 1
            smp = res['samples'][0]
            sc, _jf = sel_judge(smp)
            out, path = runner.replay(sc, 'C02_conformance')
            nm = lambda i: 'b%04d' % i
            closed_ids = [i for i in smp['ids'] if smp['closed'].get(i)]
            want_lc = nm(max(closed_ids)) if closed_ids else None
            if out.get('Latest') != nm(max(smp['ids'])) or (want_lc is not None and out.get('LatestClosed') != want_lc) or \
                    (want_lc is None and not str(out.get('LatestClosed', '')).startswith('Err')):
                inc = list(inc) + ['model/implementation disagreement on band set %s: native %s (%s)' % (smp, out, path)]
            else:
                rep.diff_vectors += 1
        if res.get('samples') and not res['bad'] and not inc and (res['samples'][0].get('scenario') or {}).get('kind') == 'history':
            # conformance: the same history run natively on one Archive value keeps every complete version restorable
            out, path = runner.replay(res['samples'][0]['scenario'], 'C02_conformance')
            if out.get('broken') or out.get('panic') or any(not s_.get('ok') for s_ in out.get('steps', [])) or len(out.get('steps', [])) != 5:
                inc = list(inc) + ['model/implementation disagreement on the bounded history: native %s (%s)' % (str(out)[:300], path)]
            else:
                rep.diff_vectors += 1
        stats = _stats(st)
        seen = set()
        for b in res['bad']:
            key = 'history:%s' % b['kind']
            if key in seen:
                continue
            seen.add(key)
            sc, jf = judge(b) if judge else (None, None)
            out, path = runner.replay(sc, 'C02_hist') if sc else ({}, '')
            rep.violation(key, (b.get('msg') or '; '.join(b.get('problems', [])[:3]))[:600], path, jf(out) if sc else True)
        if inc:
            rep.inconclusive += ['%s: %s' % (name, x) for x in inc[:4]]
            rep.add_obligation(name, 'inconclusive', stats, inc[:3])
        elif res['bad']:
            rep.add_obligation(name, 'violated', stats, [{k: v for k, v in b.items() if k != 'model'} for b in res['bad'][:3]])
        else:
            rep.add_obligation(name, 'holds', stats)

    def reuse_judge(b):
        m = b.get('model') or {}
        sc = {'kind': 'backup', 'options': {'max_block_size': 1 << 16, 'small_file_cap': 1 << 8, 'max_entries_per_hunk': 1000},
              'prior_files': [{'path': '/a', 'kind': 'File', 'content_len': m.get('basis_size', 1), 'content_class': 1, 'mode': m.get('basis_mode', 0o644) | 0o400,
                               'mtime': [m.get('basis_s', 0), m.get('basis_n', 0)]}],
              'files': [{'path': '/a', 'kind': 'File', 'content_len': m.get('new_size', 1), 'content_class': 2 if b.get('changed') else 1,
                         'mode': m.get('new_mode', 0o644) | 0o400, 'mtime': [m.get('new_s', 0), m.get('new_n', 0)]}]}
        # reproduced: the newest version restores with wrong bytes, or with any difference from the source (mode, mtime, ...)
        return sc, (lambda out: bool(out.get('panic')) or any(v.get('wrong_content') or v.get('differences') for v in (out.get('versions') or [])[-1:])
                    or (not b.get('changed') and not any('mode recorded' in p_ for p_ in b.get('problems', []))))

    def sel_judge(b):
        hl = {int(k): v for k, v in (b.get('headless') or {}).items()}
        sc = {'kind': 'select', 'bands': [{'band': i, 'state': 'closed' if b['closed'].get(i) else
                                           {'no-head': 'nohead', 'empty-head': 'emptyhead', 'empty-tail': 'emptytail'}.get(hl.get(i), 'open'), 'hunks': []} for i in b['ids']]}

        def jf(out):
            want_closed = max([i for i in b['ids'] if b['closed'].get(i)], default=None)
            name = lambda i: 'b%04d' % i
            return out.get('LatestClosed') != (name(want_closed) if want_closed is not None else out.get('LatestClosed')) or \
                out.get('Latest') != name(max(b['ids']))
        return sc, jf
    run('changed content is never recorded with the previous version\'s addresses; unchanged content is reused', B.make_reuse(prog), reuse_judge)
    pool = [0, 3, 9998, 9999, 10000, 100000]
    sets = [list(c) for n in (1, 2, 3) for c in itertools.combinations(pool, n)]
    if tier == 'quick':
        sets = [s_ for s_ in sets if len(s_) <= 2] + [[3, 9999, 10000], [0, 10000, 100000]]
    for ids in sets:
        run('LatestClosed / Latest select the newest complete / newest version among %s' % ids, B.make_selection(prog, ids), sel_judge)
    def hist_judge(b):
        # the same history on one Archive value, natively: some complete version must fail to restore to its tree
        # (or, for the 'wrote blocks again' oracle, the third backup must have written blocks)
        def jf(out):
            if out.get('panic'):
                return True
            if any('wrote blocks again' in p for p in b.get('problems', [])):
                third = [s_ for s_ in out.get('steps', []) if s_.get('step') == 3]
                if third and third[0].get('written_blocks', 0) > 0:
                    return True
            return bool(out.get('broken')) or any(not s_.get('ok') for s_ in out.get('steps', []))
        return b.get('scenario'), jf
    run('bounded history: every completed version keeps resolving to its own snapshot after every step', B.make_history(prog), hist_judge)
    # kind swaps between versions (file -> symlink, directory -> file, symlink -> directory, and the reverse): the new version
    # records the new kind, nothing of the basis entry is carried over, and the previous version is untouched
    swaps = _bcases([('SFD', [0, 1, 0])], ['none'], prior='built', prior_kinds='FDS', prior_classes=[1, 0, 0])
    swaps += _bcases([('FDS', [1, 0, 0])], ['none'], prior='built', prior_kinds='SFD', prior_classes=[0, 1, 0])
    if tier != 'quick':
        swaps += _bcases([('SFD', [0, 1, 0])], ['crash'], prior='built', prior_kinds='FDS', prior_classes=[1, 0, 0])
    rep.bounds['kind_swaps'] = [BC.case_name(c) for c in swaps]
    BC.run_cases(rep, prog, swaps, dl, 'C02', 'a path that changes kind between versions is recorded with its new kind only; the previous version is untouched',
                 require=[r'event-free run'])


def check_C06(rep, prog, tier):
    from .harness import race as RC
    from .interp import parallel_explore
    dl = tier_deadline(tier, 480, 3000)
    bound = int(os.environ.get('VERIF_C06_BOUND', 0)) or (3 if tier == 'quick' else 4)
    rep.bounds = {'actors': ['backup of a tree containing a file whose content equals a garbage block', 'gc (delete_bands with no bands)'],
                  'granularity': 'control changes hands only immediately before a storage operation',
                  'preemption_bound': bound, 'who_starts': 'solver-chosen', 'sizes': 'symbolic'}
    rep.assumptions += ['storage operations are atomic; each activity is deterministic between storage operations',
                        'both activities are the real functions run from MIR in two interpreter threads; exactly one runs at a time',
                        'store / source / hash / JSON models as in C03']
    for delete_latest, empty in ((False, False), (True, False), (False, True)):
        _race_obligation(rep, prog, RC, bound, dl, delete_latest, empty)
    # the collector run with break_lock (gc --break-lock): it must still refuse or be refused while a backup is in progress
    _race_obligation(rep, prog, RC, bound, dl, False, False, break_lock=True)
    # the existing version is b9999, so the backup writes the first five-digit band: "newest band" must not be decided by name order
    _race_obligation(rep, prog, RC, bound, dl, False, False, base=9999)


def _race_obligation(rep, prog, RC, bound, dl, delete_latest, empty=False, break_lock=False, base=0):
    from .interp import parallel_explore
    res, st, fns, mods, inc = parallel_explore(prog, RC.make_race(prog, bound, break_lock=break_lock, delete_latest=delete_latest, empty_archive=empty, base=base),
                                               deadline=dl, max_paths=400000, step_budget=900000)
    rep.functions |= fns
    rep.models |= mods
    rep.samples += res.get('samples', [])[:2]
    stats = _stats(st)
    name = ('a backup racing %s: after every interleaving (<= %d preemptions) every complete version refers only to blocks that still exist'
            % ('a delete of the newest version (its basis)' if delete_latest else
               'a garbage collection of an archive that holds no version yet, only left-over blocks' if empty else
               'a garbage collection run with break_lock' if break_lock else
               'a garbage collection of an archive whose newest version is b9999' if base else 'a garbage collection', bound))
    for b in res['bad']:
        m = b.get('model') or {}
        sa, sg = m.get('size_a', 10), m.get('size_g', 10)
        sc = {'kind': 'race',
              'first_tree': [{'path': '/a', 'kind': 'File', 'content_len': sa, 'content_class': 1, 'mtime': [10, 0], 'mode': 0o644}],
              'second_tree': [{'path': '/a', 'kind': 'File', 'content_len': sa, 'content_class': 1, 'mtime': [10, 0], 'mode': 0o644},
                              {'path': '/g', 'kind': 'File', 'content_len': sg, 'content_class': 7, 'mtime': [11, 0], 'mode': 0o644}],
              'garbage_file': '/g', 'schedule': [a for a, v, p in b['schedule']], 'delete': [1] if delete_latest else [],
              'mirsym': {'key': b['key'], 'results': b['results'], 'schedule': [(a, v, p[-20:]) for a, v, p in b['schedule']]}}
        if empty:
            sc['remove_first_version'] = True
        if break_lock:
            sc['break_lock'] = True
        if base:
            sc['first_band'] = base
        if delete_latest:
            fc = {'path': '/c', 'kind': 'File', 'content_len': m.get('size_c', 9), 'content_class': 3, 'mtime': [12, 0], 'mode': 0o644}
            sc['middle_tree'] = [sc['first_tree'][0], fc]
            sc['second_tree'] = [sc['second_tree'][0], fc, sc['second_tree'][1]]
        out, path = runner.replay(sc, 'C06_race')
        reproduced = any(v.get('restore_errors') or not v.get('restore_ok') for v in out.get('versions') or [])
        if reproduced:
            rep.diff_vectors += 1       # a schedule found by the solver, re-run natively with both operations parked at the interceptor
        rep.violation(b['key'], 'both operations finish (%s) and %s' % (b['results'], '; '.join(b['problems'][:2])), path, reproduced)
    if inc:
        rep.inconclusive += ['race: ' + x for x in inc[:4]]
        rep.add_obligation(name, 'inconclusive', stats, inc[:3])
    elif res['bad']:
        rep.add_obligation(name, 'violated (see known findings)' if all(
            any(k.get('key') == b['key'] and k.get('status') == 'known' for k in rep.known) for b in res['bad']) else 'violated',
            stats, [{k: v for k, v in b.items() if k not in ('model', 'schedule')} for b in res['bad'][:3]])
    else:
        rep.add_obligation(name, 'holds', stats)


CHECKS = {'C06': check_C06, 'C02': check_C02, 'C09': check_C09, 'C10': check_C10, 'C01': check_C01, 'C16': check_C16, 'C18': check_C18, 'C11': check_C11, 'C12': check_C12, 'C08': check_C08, 'C05': check_C05, 'C03': check_C03, 'C04': check_C04,
          'C13': check_C13, 'C14': check_C14, 'C07': check_C07}


def main():
    prop = sys.argv[1]
    tier = sys.argv[2] if len(sys.argv) > 2 else os.environ.get('VERIF_TIER', 'quick')
    rep = runner.Report(prop, tier)
    try:
        text, secs, reused = runner.dump_mir()
        rep.extra['mir_dump_s'] = round(secs, 1)
        rep.extra['mir_regenerated'] = not reused
        rep.extra['mir_lines'] = text.count('\n')
        rep.extra['replay_build_s'] = round(runner.build_replay(), 1)
        prog = Program(text, runner.REPO)
        CHECKS[prop](rep, prog, tier)
    except runner.BuildError as e:
        rep.inconclusive.append('build: %s' % e)
    except Unsupported as e:
        rep.inconclusive.append('unsupported: %s' % e)
    except Exception as e:   # a bug in the machinery is never a pass and never an alarm
        traceback.print_exc()
        rep.inconclusive.append('internal error: %r' % (e,))
    sys.exit(rep.finish())


if __name__ == '__main__':
    main()
