"""Models of std / third-party callees whose MIR is not part of the crate dump.

Each model is a few lines over the structured values; the set of models a run used is
recorded in its evidence (Stats.models_used).  A callee with no model makes the run
inconclusive (Unsupported) -- never a pass, never an alarm.
"""
import re

import z3

from . import mirparse as P
from .srcinfo import last_seg
from .values import *  # noqa
from .interp import BytesLit, seq_items, copy_value, type_tag, Executor

_TABLE = []     # (compiled regex, fn(ex, m, args, fr, dest))


def model(pattern):
    def deco(fn):
        _TABLE.append((re.compile('(?:' + pattern + r')$'), fn))
        return fn
    return deco


_cache = {}


def dispatch(ex, c, args, fr, dest):
    ents = _cache.get(c)
    if ents is None:
        ents = []
        for rx, fn in _TABLE:
            m = rx.match(c)
            if m:
                ents.append((fn, m))
        _cache[c] = ents
    for fn, m in ents:
        try:
            r = fn(ex, m, args, fr, dest)
        except (IndexError, AttributeError, TypeError, KeyError) as e:
            raise Unsupported('model %s failed on %s: %r' % (fn.__name__, c, e))
        if r is not NotImplemented:
            ex.E.stats.models_used.add(fn.__name__)
            return r
    return NotImplemented


def deref(v):
    n = 0
    while isinstance(v, Ref) and n < 8:
        v = v.get()
        n += 1
    return v


def some(v):
    return Agg('Option', 1, [v], 'Some')


def none():
    return Agg('Option', 0, [], 'None')


def ok(v):
    return Agg('Result', 0, [v], 'Ok')


def err(v):
    return Agg('Result', 1, [v], 'Err')


def ordering(v):
    return Agg('Ordering', v, [])


def mk_bool_enum(b):
    return b


# ============================================================================ strings
class SplitIter(Model):
    ty = 'Split'

    def __init__(self, s, sep):
        self.s, self.sep, self.pos, self.finished = as_symstr(s), sep, 0, False

    def as_pyiter(self, ex):
        def g():
            while True:
                o = split_next(ex, None, [self], None, None)
                if o.variant == 0:
                    return
                yield o.fields[0]
        return PyIter(g())


@model(r'(?:core|std|alloc)::str::<impl str>::split::<char>')
def str_split_char(ex, m, a, fr, dest):
    return SplitIter(deref(a[0]), a[1])


@model(r'<std::str::Split<(?:\'_, )?char> as IntoIterator>::into_iter|<Split<char> as IntoIterator>::into_iter')
def split_into_iter(ex, m, a, fr, dest):
    return a[0]


@model(r'<std::str::Split<(?:\'_, )?char> as Iterator>::next|<Split<char> as Iterator>::next')
def split_next(ex, m, a, fr, dest):
    sp = deref(a[0])
    if sp.finished:
        return none()
    s = sp.s
    conds = []
    nob = []
    L = len(s.chars)
    for j in range(sp.pos, L):
        conds.append(b_and(b_lt(j, s.n), eq(s.chars[j], sp.sep), *nob))
        nob.append(b_or(b_not(b_lt(j, s.n)), b_not(eq(s.chars[j], sp.sep))))
    conds.append(b_and(*nob))
    i = ex.choose(conds, 'split.next')
    if i < L - sp.pos:
        j = sp.pos + i
        part = SymStr(s.chars[sp.pos:j], j - sp.pos)
        sp.pos = j + 1
    else:
        part = SymStr(s.chars[sp.pos:], s.n - sp.pos)
        sp.finished = True
    return some(str_simplify(part))


@model(r'(?:core|std|alloc)::str::<impl str>::(len)|std::string::String::(len)|String::(len)')
def str_len(ex, m, a, fr, dest):
    s = deref(a[0])
    if isinstance(s, str):
        return len(s.encode('utf-8'))
    return s.blen()


@model(r'(?:core|std|alloc)::str::<impl str>::is_empty|(?:std::string::)?String::is_empty')
def str_is_empty(ex, m, a, fr, dest):
    s = deref(a[0])
    if isinstance(s, str):
        return s == ''
    return eq(s.n, 0)


@model(r'(?:core|std|alloc)::str::<impl str>::starts_with::<char>')
def str_starts_with_char(ex, m, a, fr, dest):
    s = as_symstr(deref(a[0]))
    if not s.chars:
        return False
    return b_and(b_lt(0, s.n), eq(s.chars[0], a[1]))


@model(r'(?:core|std|alloc)::str::<impl str>::ends_with::<char>')
def str_ends_with_char(ex, m, a, fr, dest):
    s = deref(a[0])
    if isinstance(s, str):
        return s.endswith(chr(a[1])) if not is_sym(a[1]) else (b_and(len(s) > 0, eq(ord(s[-1]), a[1])) if s else False)
    return b_and(b_lt(0, s.n), eq(s.elem(zint(s.n) - 1), a[1]))


@model(r'(?:core|std|alloc)::str::<impl str>::contains::<char>')
def str_contains_char(ex, m, a, fr, dest):
    s = as_symstr(deref(a[0]))
    return b_or(*[b_and(b_lt(i, s.n), eq(s.chars[i], a[1])) for i in range(len(s.chars))])


@model(r'(?:core|std|alloc)::str::<impl str>::starts_with::<&(?:std::string::)?String>|(?:core|std|alloc)::str::<impl str>::starts_with::<&str>')
def str_starts_with_str(ex, m, a, fr, dest):
    return str_starts_with(deref(a[0]), deref(a[1]))


@model(r'<str as Ord>::cmp|<(?:std::string::)?String as Ord>::cmp')
def str_ord_cmp(ex, m, a, fr, dest):
    return ordering(str_cmp(deref(a[0]), deref(a[1])))


@model(r'<(?:&)?(?:str|(?:std::string::)?String) as PartialEq(?:<&?(?:str|(?:std::string::)?String)>)?>::(eq|ne)')
def str_partial_eq(ex, m, a, fr, dest):
    r = str_eq(deref(a[0]), deref(a[1]))
    return r if m.group(1) == 'eq' else b_not(r)


@model(r'<str as std::ops::Index<std::ops::RangeFrom<usize>>>::index|<(?:std::string::)?String as (?:std::ops::)?Index<(?:std::ops::)?RangeFrom<usize>>>::index')
def str_index_from(ex, m, a, fr, dest):
    s = deref(a[0])
    start = a[1].fields[0]
    if isinstance(s, str):
        k = ex.concretize(start, 0, len(s.encode()) + 1, 'str index')
        b = s.encode('utf-8')
        if k > len(b):
            raise Panic('str index out of range', fr.name)
        try:
            return b[k:].decode('utf-8')
        except UnicodeDecodeError:
            raise Panic('str index not on char boundary', fr.name)
    k = ex.concretize(start, 0, len(s.chars) * 4, 'str index')
    if k == 0:
        return s
    # byte offset k must be a char boundary: fork on how many leading chars make up k bytes
    conds, outs = [], []
    for nchar in range(0, len(s.chars) + 1):
        pre = SymStr(s.chars[:nchar], nchar)
        conds.append(b_and(b_not(b_lt(s.n, nchar)), eq(pre.blen(), k)))
        outs.append(nchar)
    conds.append(b_not(b_or(*conds)))
    i = ex.choose(conds, 'str index boundary')
    if i == len(outs):
        raise Panic('str index out of range or not on char boundary', fr.name)
    return str_simplify(s.slice_chars(outs[i]))


class CharsIter(Model):
    ty = 'Chars'

    def __init__(self, s):
        self.s, self.pos = as_symstr(s), 0

    def as_pyiter(self, ex):
        def g():
            while True:
                o = chars_next(ex, None, [self], None, None)
                if o.variant == 0:
                    return
                yield o.fields[0]
        return PyIter(g())


@model(r'(?:core|std|alloc)::str::<impl str>::chars')
def str_chars(ex, m, a, fr, dest):
    return CharsIter(deref(a[0]))


@model(r'<Chars<?(?:\'_)?>? as Iterator>::nth|<std::str::Chars<?(?:\'_)?>? as Iterator>::nth')
def chars_nth(ex, m, a, fr, dest):
    it = deref(a[0])
    s = it.s
    k = a[1] + it.pos if it.pos else a[1]
    inr = b_and(b_not(b_lt(k, 0)), b_lt(k, s.n))
    if ex.branch(inr, 'chars.nth'):
        return some(s.elem(k))
    return none()


@model(r'<Chars<?(?:\'_)?>? as Iterator>::next|<std::str::Chars<?(?:\'_)?>? as Iterator>::next')
def chars_next(ex, m, a, fr, dest):
    it = deref(a[0])
    s = it.s
    if it.pos >= len(s.chars):
        return none()
    if ex.branch(b_lt(it.pos, s.n), 'chars.next'):
        c = s.chars[it.pos]
        it.pos += 1
        return some(c)
    return none()


@model(r'<std::option::Option<char> as PartialEq>::eq|<Option<char> as PartialEq>::eq')
def opt_char_eq(ex, m, a, fr, dest):
    x, y = deref(a[0]), deref(a[1])
    if x.variant != y.variant:
        return False
    if x.variant == 0:
        return True
    return eq(x.fields[0], y.fields[0])


@model(r'<(?:std::string::)?String as Clone>::clone|<str as ToOwned>::to_owned|<str as ToString>::to_string|<(?:std::string::)?String as (?:std::ops::)?Deref>::deref|<(?:std::string::)?String as From<&str>>::from|<(?:std::string::)?String as ToString>::to_string|(?:std::string::)?String::as_str|<(?:std::string::)?String as AsRef<str>>::as_ref|<str as AsRef<str>>::as_ref|<(?:std::string::)?String as Borrow<str>>::borrow|(?:std::string::)?String::into_boxed_str|<(?:std::string::)?String as From<(?:std::string::)?String>>::from|<(?:std::string::)?String as Into<(?:std::string::)?String>>::into|<&str as Into<(?:std::string::)?String>>::into|<(?:std::string::)?String as (?:std::ops::)?DerefMut>::deref_mut|(?:core|std|alloc)::str::<impl str>::to_string|(?:core|std|alloc)::str::<impl str>::to_owned|<&str as ToString>::to_string|<std::string::String as From<&std::string::String>>::from')
def str_identity(ex, m, a, fr, dest):
    return deref(a[0])


@model(r'(?:std::string::)?String::new')
def string_new(ex, m, a, fr, dest):
    return ''


@model(r'(?:std::string::)?String::push')
def string_push(ex, m, a, fr, dest):
    r = a[0]
    s = r.get()
    c = a[1]
    if isinstance(s, str) and not is_sym(c):
        r.set(s + chr(c))
    else:
        r.set(str_simplify(str_concat(s, SymStr([c], 1))))
    return UNIT


@model(r'(?:std::string::)?String::push_str|<(?:std::string::)?String as AddAssign<&str>>::add_assign')
def string_push_str(ex, m, a, fr, dest):
    r = a[0]
    r.set(str_simplify(str_concat(r.get(), deref(a[1]))))
    return UNIT


@model(r'(?:core|std|alloc)::str::<impl str>::as_bytes|(?:std::string::)?String::as_bytes|(?:std::string::)?String::into_bytes')
def str_as_bytes(ex, m, a, fr, dest):
    s = deref(a[0])
    cs = str_simplify(s) if not isinstance(s, str) else s
    if isinstance(cs, str):
        # every character known: an ordinary byte slice (iteration, sub-slicing, comparison all apply)
        data = list(cs.encode('utf-8'))
        return Slice(data, 0, len(data))
    return StrBytes(as_symstr(s))


def concrete_bytes(v):
    """bytes of a byte-slice value whose elements are all concrete, else None."""
    if isinstance(v, BytesLit):
        return bytes(v.data)
    if isinstance(v, Slice) or isinstance(v, VecV):
        items = v.items[v.lo:v.hi] if isinstance(v, Slice) else v.items
        if all(isinstance(x, int) and not isinstance(x, bool) and 0 <= x < 256 for x in items):
            return bytes(items)
    if isinstance(v, StrBytes):
        c = v.s.concrete()
        if c is not None:
            return c.encode('utf-8')
    return None


def bytes_as_symstr(v):
    if isinstance(v, StrBytes):
        return v.s
    c = concrete_bytes(v)
    if c is not None:
        try:
            return SymStr.lit(c.decode('utf-8'))
        except UnicodeDecodeError:
            return None
    return None


class StrBytes(Model):
    """The UTF-8 bytes of a symbolic string (opaque: only identity / length are supported)."""
    ty = 'StrBytes'
    unsized = True

    def __init__(self, s):
        self.s = s

    def byte_len(self):
        return self.s.blen()

    def byte_at(self, ex, k, fr):
        n = self.s.blen()
        if not ex.branch(b_and(b_not(b_lt(k, 0)), b_lt(k, n)), 'byte index'):
            raise Panic('index out of bounds', fr.name if fr else '')
        v = str_byte_at(self.s, k)
        sv = z3.simplify(v)
        return sv.as_long() if z3.is_int_value(sv) else v


@model(r'(?:core|std|alloc)::str::<impl str>::strip_prefix::<char>')
def str_strip_prefix_char(ex, m, a, fr, dest):
    s = deref(a[0])
    c = a[1]
    ss = as_symstr(s)
    if not ss.chars:
        return none()
    if ex.branch(b_and(b_lt(0, ss.n), eq(ss.chars[0], c)), 'strip_prefix'):
        return some(str_simplify(ss.slice_chars(1)))
    return none()


@model(r'(?:core|std|alloc)::str::<impl str>::parse::<(.*)>')
def str_parse(ex, m, a, fr, dest):
    ty = m.group(1)
    s = deref(a[0])
    if ty in INT_BITS:
        s = str_simplify(s)
        if not isinstance(s, str):
            raise Unsupported('parse::<%s> of symbolic string' % ty)
        t = s[1:] if s[:1] in ('+', '-') else s
        if t and all('0' <= ch <= '9' for ch in t) and (s[0] != '-' or ty[0] == 'i'):
            v = int(s)
            if in_range(v, ty):
                return ok(v)
        return err(Opaque('ParseIntError'))
    return ex.do_call(fr, '<%s as FromStr>::from_str' % ty, [s], dest)


# ============================================================================ Option / Result
@model(r'(?:std::option::)?Option::<.*>::(expect|unwrap)')
def opt_unwrap(ex, m, a, fr, dest):
    o = a[0]
    if o.variant == 1:
        return o.fields[0]
    msg = a[1] if len(a) > 1 and isinstance(a[1], str) else 'called `Option::unwrap()` on a `None` value'
    raise Panic(msg, fr.name)


@model(r'(?:std::result::)?Result::<.*>::(expect|unwrap)')
def res_unwrap(ex, m, a, fr, dest):
    o = a[0]
    if o.variant == 0:
        return o.fields[0]
    msg = a[1] if len(a) > 1 and isinstance(a[1], str) else 'called `Result::unwrap()` on an `Err` value'
    raise Panic('%s: %r' % (msg, o.fields[0]), fr.name)


@model(r'(?:std::result::)?Result::<.*>::(expect_err|unwrap_err)')
def res_unwrap_err(ex, m, a, fr, dest):
    o = a[0]
    if o.variant == 1:
        return o.fields[0]
    raise Panic('unwrap_err on Ok', fr.name)


@model(r'(?:std::option::)?Option::<.*>::(is_some|is_none)')
def opt_is(ex, m, a, fr, dest):
    o = deref(a[0])
    return (o.variant == 1) == (m.group(1) == 'is_some')


@model(r'(?:std::result::)?Result::<.*>::(is_ok|is_err)')
def res_is(ex, m, a, fr, dest):
    o = deref(a[0])
    return (o.variant == 0) == (m.group(1) == 'is_ok')


@model(r'(?:std::option::)?Option::<.*>::(as_ref|as_mut)')
def opt_as_ref(ex, m, a, fr, dest):
    o = deref(a[0])
    if o.variant == 0:
        return none()
    return some(Ref(o.fields, 0, m.group(1) == 'as_mut'))


@model(r'(?:std::result::)?Result::<.*>::(as_ref|as_mut)')
def res_as_ref(ex, m, a, fr, dest):
    o = deref(a[0])
    return Agg('Result', o.variant, [Ref(o.fields, 0, m.group(1) == 'as_mut')], o.vname)


@model(r'(?:std::option::)?Option::<.*>::as_deref')
def opt_as_deref(ex, m, a, fr, dest):
    o = deref(a[0])
    if o.variant == 0:
        return none()
    v = deref(o.fields[0])
    if isinstance(v, Agg) and last_seg(v.ty) not in ('Box', 'Arc', 'Rc'):
        # a crate type with its own Deref impl (e.g. Apath -> str): run it
        cands = ex.prog.fn_index.get((type_tag(v), 'Deref', 'deref'))
        if cands:
            return some(ex.call_fn(cands[0][0], [Ref([v], 0)]))
    return some(deref_target(v))


def deref_target(v):
    v = deref(v)
    if isinstance(v, Agg) and last_seg(v.ty) in ('Box', 'Arc', 'Rc'):
        return v.fields[0]
    return v


@model(r'(?:std::option::)?Option::<.*>::take')
def opt_take(ex, m, a, fr, dest):
    r = a[0]
    o = r.get()
    r.set(none())
    return o


@model(r'(?:std::option::)?Option::<.*>::cloned|(?:std::option::)?Option::<.*>::copied')
def opt_cloned(ex, m, a, fr, dest):
    o = a[0]
    if o.variant == 0:
        return none()
    return some(clone_value(ex, deref(o.fields[0])))


@model(r'(?:std::option::)?Option::<.*>::map::<.*>')
def opt_map(ex, m, a, fr, dest):
    o = a[0]
    if o.variant == 0:
        return none()
    return some(ex.call_closure(a[1], [o.fields[0]]))


@model(r'(?:std::option::)?Option::<.*>::and_then::<.*>')
def opt_and_then(ex, m, a, fr, dest):
    o = a[0]
    if o.variant == 0:
        return none()
    return ex.call_closure(a[1], [o.fields[0]])


@model(r'(?:std::option::)?Option::<.*>::map_or_else::<.*>')
def opt_map_or_else(ex, m, a, fr, dest):
    o = a[0]
    if o.variant == 0:
        return ex.call_closure(a[1], [])
    return ex.call_closure(a[2], [o.fields[0]])


@model(r'(?:std::option::)?Option::<.*>::map_or::<.*>')
def opt_map_or(ex, m, a, fr, dest):
    o = a[0]
    if o.variant == 0:
        return a[1]
    return ex.call_closure(a[2], [o.fields[0]])


@model(r'(?:std::option::)?Option::<.*>::is_none_or::<.*>')
def opt_is_none_or(ex, m, a, fr, dest):
    o = a[0]
    if o.variant == 0:
        return True
    return ex.call_closure(a[1], [o.fields[0]])


@model(r'(?:std::option::)?Option::<.*>::is_some_and::<.*>')
def opt_is_some_and(ex, m, a, fr, dest):
    o = a[0]
    if o.variant == 0:
        return False
    return ex.call_closure(a[1], [o.fields[0]])


@model(r'(?:std::option::)?Option::<.*>::ok_or::<.*>')
def opt_ok_or(ex, m, a, fr, dest):
    o = a[0]
    if o.variant == 1:
        return ok(o.fields[0])
    return err(a[1])


@model(r'(?:std::option::)?Option::<.*>::unwrap_or_else::<.*>')
def opt_unwrap_or_else(ex, m, a, fr, dest):
    o = a[0]
    if o.variant == 1:
        return o.fields[0]
    return ex.call_closure(a[1], [])


@model(r'(?:std::option::)?Option::<.*>::unwrap_or')
def opt_unwrap_or(ex, m, a, fr, dest):
    o = a[0]
    return o.fields[0] if o.variant == 1 else a[1]


@model(r'(?:std::option::)?Option::<.*>::unwrap_or_default')
def opt_unwrap_or_default(ex, m, a, fr, dest):
    o = a[0]
    if o.variant == 1:
        return o.fields[0]
    raise Unsupported('unwrap_or_default on None')


@model(r'(?:std::option::)?Option::<.*>::transpose')
def opt_transpose(ex, m, a, fr, dest):
    o = a[0]
    if o.variant == 0:
        return ok(none())
    r = o.fields[0]
    if r.variant == 0:
        return ok(some(r.fields[0]))
    return err(r.fields[0])


@model(r'(?:std::option::)?Option::<.*>::ok_or_else::<.*>')
def opt_ok_or_else(ex, m, a, fr, dest):
    o = a[0]
    if o.variant == 1:
        return ok(o.fields[0])
    return err(ex.call_closure(a[1], []))


@model(r'(?:std::result::)?Result::<.*>::map_err::<.*>')
def res_map_err(ex, m, a, fr, dest):
    o = a[0]
    if o.variant == 0:
        return o
    return err(ex.call_closure(a[1], [o.fields[0]]))


@model(r'(?:std::result::)?Result::<.*>::map::<.*>')
def res_map(ex, m, a, fr, dest):
    o = a[0]
    if o.variant == 1:
        return o
    return ok(ex.call_closure(a[1], [o.fields[0]]))


@model(r'(?:std::result::)?Result::<.*>::or_else::<.*>')
def res_or_else(ex, m, a, fr, dest):
    o = a[0]
    if o.variant == 0:
        return o
    return ex.call_closure(a[1], [o.fields[0]])


@model(r'(?:std::result::)?Result::<.*>::and_then::<.*>')
def res_and_then(ex, m, a, fr, dest):
    o = a[0]
    if o.variant == 1:
        return o
    return ex.call_closure(a[1], [o.fields[0]])


@model(r'(?:std::result::)?Result::<.*>::unwrap_or')
def res_unwrap_or(ex, m, a, fr, dest):
    o = a[0]
    return o.fields[0] if o.variant == 0 else a[1]


@model(r'(?:std::result::)?Result::<.*>::ok')
def res_ok(ex, m, a, fr, dest):
    o = a[0]
    return some(o.fields[0]) if o.variant == 0 else none()


@model(r'(?:std::result::)?Result::<.*>::inspect_err::<.*>')
def res_inspect_err(ex, m, a, fr, dest):
    o = a[0]
    if o.variant == 1:
        ex.call_closure(a[1], [Ref(o.fields, 0)])
    return o


@model(r'<(?:std::result::)?Result<.*> as Try>::branch')
def res_branch(ex, m, a, fr, dest):
    o = a[0]
    if o.variant == 0:
        return Agg('ControlFlow', 0, [o.fields[0]], 'Continue')
    return Agg('ControlFlow', 1, [err(o.fields[0])], 'Break')


@model(r'<(?:std::option::)?Option<.*> as Try>::branch')
def opt_branch(ex, m, a, fr, dest):
    o = a[0]
    if o.variant == 1:
        return Agg('ControlFlow', 0, [o.fields[0]], 'Continue')
    return Agg('ControlFlow', 1, [none()], 'Break')


@model(r'<(?:std::option::)?Option<.*> as FromResidual<.*>>::from_residual')
def opt_from_residual(ex, m, a, fr, dest):
    return none()


@model(r'<(?:std::result::)?Result<(.*)> as FromResidual<(?:std::result::)?Result<(?:std::convert::)?Infallible, (.*)>>>::from_residual')
def res_from_residual(ex, m, a, fr, dest):
    e = a[0].fields[0]
    tys = P.split_top(m.group(1))
    target_err = tys[-1].strip()
    src_err = m.group(2).strip()
    if P.strip_generics(target_err) == P.strip_generics(src_err) or last_seg(target_err) == last_seg(src_err) and target_err.split('::')[0] == src_err.split('::')[0]:
        return err(e)
    conv = ex.do_call(fr, '<%s as From<%s>>::from' % (target_err, src_err), [e], None)
    return err(conv)


@model(r'<(.*) as From<(.*)>>::from')
def generic_from(ex, m, a, fr, dest):
    t, s = m.group(1).strip(), m.group(2).strip()
    if P.strip_generics(t) == P.strip_generics(s):
        return a[0]
    return NotImplemented


@model(r'<(.*) as Into<(.*)>>::into')
def generic_into(ex, m, a, fr, dest):
    s, t = m.group(1).strip(), m.group(2).strip()
    if P.strip_generics(t) == P.strip_generics(s):
        return a[0]
    return ex.do_call(fr, '<%s as From<%s>>::from' % (t, s), a, dest)


@model(r'<(.*) as TryInto<(.*)>>::try_into|<(.*) as TryFrom<(.*)>>::try_from')
def generic_try_into(ex, m, a, fr, dest):
    if m.group(1) is not None:
        s, t = m.group(1).strip(), m.group(2).strip()
    else:
        t, s = m.group(3).strip(), m.group(4).strip()
    if s in INT_BITS and t in INT_BITS:
        v = a[0]
        if ex.branch(in_range(v, t), 'try_into'):
            return ok(v)
        return err(Opaque('TryFromIntError'))
    return NotImplemented


# ============================================================================ cmp / misc core
@model(r'<usize as Ord>::cmp|<u32 as Ord>::cmp|<u64 as Ord>::cmp|<i64 as Ord>::cmp|<u8 as Ord>::cmp|<char as Ord>::cmp')
def int_cmp(ex, m, a, fr, dest):
    x, y = deref(a[0]), deref(a[1])
    return ordering(ite(b_lt(x, y), -1, ite(b_lt(y, x), 1, 0)))


@model(r'<(?:std::cmp::)?Ordering as PartialEq>::(eq|ne)')
def ordering_eq(ex, m, a, fr, dest):
    r = eq(deref(a[0]).variant, deref(a[1]).variant)
    return r if m.group(1) == 'eq' else b_not(r)


@model(r'(?:std::cmp::)?Ordering::(is_eq|is_ne|is_lt|is_gt|is_le|is_ge|reverse)')
def ordering_is(ex, m, a, fr, dest):
    v = a[0].variant
    k = m.group(1)
    if k == 'reverse':
        return ordering(-v)
    return {'is_eq': eq(v, 0), 'is_ne': b_not(eq(v, 0)), 'is_lt': b_lt(v, 0), 'is_gt': b_lt(0, v),
            'is_le': b_not(b_lt(0, v)), 'is_ge': b_not(b_lt(v, 0))}[k]


@model(r'(?:std::cmp::|core::cmp::)?(max|min)::<(\w+)>|<(\w+) as Ord>::(max|min)')
def cmp_max(ex, m, a, fr, dest):
    which = m.group(1) or m.group(4)
    x, y = a[0], a[1]
    if which == 'max':
        return ite(b_lt(y, x), x, y)
    return ite(b_lt(y, x), y, x)


@model(r'(?:std::mem::|core::mem::)?take::<.*>')
def mem_take(ex, m, a, fr, dest):
    r = a[0]
    old = r.get()
    r.set(default_like(ex, old))
    return old


@model(r'(?:std::mem::|core::mem::)?replace::<.*>')
def mem_replace(ex, m, a, fr, dest):
    r = a[0]
    old = r.get()
    r.set(a[1])
    return old


@model(r'(?:std::mem::|core::mem::)?drop::<.*>|(?:std::mem::)?forget::<.*>')
def mem_drop(ex, m, a, fr, dest):
    if 'drop' in m.group(0):
        ex.drop_value(a[0])
    return UNIT


def default_like(ex, v):
    if isinstance(v, VecV):
        return VecV([], v.ty)
    if isinstance(v, (str, SymStr)):
        return ''
    if hasattr(v, 'default_like'):
        return v.default_like()
    if isinstance(v, Agg) and v.variant is None and v.ty:
        name = last_seg(v.ty)
        cands = ex.prog.fn_index.get((name, 'Default', 'default'))
        if cands:
            return ex.call_fn(cands[0][0], [])
    if isinstance(v, int) and not isinstance(v, bool):
        return 0
    raise Unsupported('default_like(%r)' % (v,))


@model(r'must_use::<.*>|(?:std::hint::|core::hint::)?black_box::<.*>|<.* as IntoFuture>::into_future|(?:std::convert::)?identity::<.*>|<&?(?:mut )?\w+ as (?:std::borrow::)?Borrow(?:Mut)?<\w+>>::borrow(?:_mut)?')
def identity(ex, m, a, fr, dest):
    return a[0]


@model(r'(?:std::pin::)?Pin::<.*>::new_unchecked|(?:std::pin::)?Pin::<.*>::new')
def pin_new(ex, m, a, fr, dest):
    return Agg('Pin', None, [a[0]])


@model(r'(?:std::pin::)?Pin::<.*>::(as_mut|get_mut|get_unchecked_mut|into_inner|as_ref)')
def pin_as_mut(ex, m, a, fr, dest):
    p = deref(a[0]) if m.group(1) in ('as_mut', 'as_ref') else a[0]
    if m.group(1) in ('as_mut', 'as_ref'):
        return Agg('Pin', None, [p.fields[0]])
    return p.fields[0]


@model(r'<(.*) as Future>::poll')
def future_poll(ex, m, a, fr, dest):
    pin = a[0]
    target = pin.fields[0]
    fut = deref(target)
    if isinstance(fut, Agg) and last_seg(fut.ty) in ('Pin', 'Box') and fut.fields:
        fut = deref(fut.fields[0])
        if isinstance(fut, Agg) and last_seg(fut.ty) in ('Pin', 'Box') and fut.fields:
            fut = deref(fut.fields[0])
    if isinstance(fut, ReadyFuture):
        return Agg('Poll', 0, [fut.take(ex)], 'Ready')
    if isinstance(fut, Agg) and fut.ty.startswith('{'):
        return ex.poll_coroutine(fut, a[1] if len(a) > 1 else None)
    raise Unsupported('poll of %r' % (fut,))


class ReadyFuture(Model):
    """A future produced by a modelled async function: evaluated when first polled."""
    ty = 'ReadyFuture'

    def __init__(self, thunk):
        self.thunk = thunk
        self.done = False

    def take(self, ex):
        if self.done:
            raise Panic('future polled after completion')
        self.done = True
        return self.thunk()


@model(r'(?:core::future::|std::future::)?get_context')
def get_context(ex, m, a, fr, dest):
    return a[0]


@model(r'(?:std::boxed::)?Box::<.*>::new|(?:std::boxed::)?Box::<.*>::pin')  # noqa
def box_new(ex, m, a, fr, dest):
    b = Agg('Box', None, [a[0]])
    if m.group(0).endswith('pin'):
        return Agg('Pin', None, [b])
    return b


@model(r'<(?:std::boxed::)?Box<.*> as (?:std::ops::)?Deref(?:Mut)?>::deref(?:_mut)?')
def box_deref(ex, m, a, fr, dest):
    b = deref(a[0])
    return Ref(b.fields, 0, True)


# ============================================================================ Arc / locks
@model(r'(?:std::sync::)?Arc::<.*>::new|(?:std::rc::)?Rc::<.*>::new')
def arc_new(ex, m, a, fr, dest):
    return Agg('Arc', None, [a[0]])


@model(r'<(?:std::sync::)?Arc<.*> as Clone>::clone|<(?:std::rc::)?Rc<.*> as Clone>::clone')
def arc_clone(ex, m, a, fr, dest):
    return deref(a[0])


@model(r'<(?:std::sync::)?Arc<.*> as (?:std::ops::)?Deref>::deref|<(?:std::sync::)?Arc<.*> as AsRef<.*>>::as_ref')
def arc_deref(ex, m, a, fr, dest):
    arc = deref(a[0])
    if isinstance(arc, Agg) and last_seg(arc.ty) in ('Arc', 'Rc'):
        inner = arc.fields[0]
        if is_unsized(inner):
            return inner
        return Ref(arc.fields, 0)
    return arc      # a model object standing for Arc<dyn Trait>


def is_unsized(v):
    return isinstance(v, (str, SymStr, Slice, BytesLit)) or getattr(v, 'unsized', False)


@model(r'(?:std::sync::)?(?:RwLock|Mutex)::<.*>::new')
def lock_new(ex, m, a, fr, dest):
    return Agg('Lock', None, [a[0]])


@model(r'(?:std::sync::)?(?:RwLock|Mutex)::<.*>::(read|write|lock)')
def lock_acquire(ex, m, a, fr, dest):
    l = deref(a[0])
    return ok(Agg('Guard', None, [Ref(l.fields, 0, True)]))


@model(r'<(?:std::sync::)?(?:RwLockReadGuard|RwLockWriteGuard|MutexGuard)<.*> as (?:std::ops::)?Deref(?:Mut)?>::deref(?:_mut)?')
def guard_deref(ex, m, a, fr, dest):
    g = deref(a[0])
    return g.fields[0]


# ============================================================================ Vec / slices
def vec_of(v):
    v = deref(v)
    if isinstance(v, VecV):
        return v
    raise Unsupported('not a Vec: %r' % (v,))


@model(r'(?:std::vec::)?Vec::<.*>::new|(?:std::vec::)?Vec::<.*>::with_capacity|(?:std::collections::)?VecDeque::<.*>::new|<(?:std::vec::)?Vec<.*> as Default>::default')
def vec_new(ex, m, a, fr, dest):
    return VecV([], 'VecDeque' if 'VecDeque' in m.group(0) else 'Vec')


@model(r'(?:std::vec::)?Vec::<.*>::(len)|(?:core|std|alloc)::slice::<impl \[.*\]>::(len)|(?:std::collections::)?VecDeque::<.*>::(len)')
def vec_len(ex, m, a, fr, dest):
    items, lo, hi = seq_items(deref(a[0]))
    return hi - lo


@model(r'(?:std::vec::)?Vec::<.*>::is_empty|(?:core|std|alloc)::slice::<impl \[.*\]>::is_empty|(?:std::collections::)?VecDeque::<.*>::is_empty')
def vec_is_empty(ex, m, a, fr, dest):
    items, lo, hi = seq_items(deref(a[0]))
    return hi == lo


@model(r'(?:std::vec::)?Vec::<.*>::push|(?:std::collections::)?VecDeque::<.*>::push_back')
def vec_push(ex, m, a, fr, dest):
    vec_of(a[0]).items.append(a[1])
    return UNIT


@model(r'(?:std::collections::)?VecDeque::<.*>::push_front')
def vec_push_front(ex, m, a, fr, dest):
    vec_of(a[0]).items.insert(0, a[1])
    return UNIT


@model(r'(?:std::collections::)?VecDeque::<.*>::pop_front')
def vec_pop_front(ex, m, a, fr, dest):
    v = vec_of(a[0])
    return some(v.items.pop(0)) if v.items else none()


@model(r'(?:std::vec::)?Vec::<.*>::pop|(?:std::collections::)?VecDeque::<.*>::pop_back')
def vec_pop(ex, m, a, fr, dest):
    v = vec_of(a[0])
    return some(v.items.pop()) if v.items else none()


@model(r'(?:std::vec::)?Vec::<.*>::append')
def vec_append(ex, m, a, fr, dest):
    v, w = vec_of(a[0]), vec_of(a[1])
    v.items.extend(w.items)
    w.items.clear()
    return UNIT


@model(r'(?:std::vec::)?Vec::<.*>::clear|(?:std::collections::)?VecDeque::<.*>::clear')
def vec_clear(ex, m, a, fr, dest):
    vec_of(a[0]).items.clear()
    return UNIT


@model(r'(?:std::vec::)?Vec::<.*>::reserve|(?:std::collections::)?VecDeque::<.*>::reserve|(?:std::vec::)?Vec::<.*>::shrink_to_fit')
def vec_reserve(ex, m, a, fr, dest):
    return UNIT


@model(r'(?:std::vec::)?Vec::<.*>::truncate')
def vec_truncate(ex, m, a, fr, dest):
    v = vec_of(a[0])
    n = ex.concretize(a[1], 0, len(v.items) + 1, 'truncate')
    del v.items[n:]
    return UNIT


@model(r'(?:std::vec::)?Vec::<.*>::split_off')
def vec_split_off(ex, m, a, fr, dest):
    v = vec_of(a[0])
    n = ex.concretize(a[1], 0, len(v.items) + 1, 'split_off')
    if n > len(v.items):
        raise Panic('`at` split index (is %d) should be <= len (is %d)' % (n, len(v.items)), fr.name if fr else '')
    tail = v.items[n:]
    del v.items[n:]
    return VecV(tail, 'Vec')


@model(r'<(?:std::vec::)?Vec<.*> as (?:std::ops::)?Deref(?:Mut)?>::deref(?:_mut)?|(?:std::vec::)?Vec::<.*>::as_slice|(?:std::vec::)?Vec::<.*>::as_mut_slice|<(?:std::vec::)?Vec<.*> as AsRef<\[.*\]>>::as_ref')
def vec_deref(ex, m, a, fr, dest):
    v = deref(a[0])
    if isinstance(v, VecV):
        return Slice(v.items, 0, len(v.items))
    return v     # payload-like objects are their own slices


@model(r'<(?:std::vec::)?Vec<.*> as (?:std::ops::)?Index(?:Mut)?<usize>>::index(?:_mut)?|<\[.*\] as (?:std::ops::)?Index(?:Mut)?<usize>>::index(?:_mut)?')
def vec_index(ex, m, a, fr, dest):
    items, lo, hi = seq_items(deref(a[0]))
    i = ex.concretize(a[1], 0, hi - lo, 'vec index')
    if not (0 <= i < hi - lo):
        raise Panic('index out of bounds: the len is %d but the index is %d' % (hi - lo, i), fr.name)
    return Ref(items, lo + i, True)


@model(r'<\[.*\] as (?:std::ops::)?Index<(?:std::ops::)?RangeFrom<usize>>>::index|<(?:std::vec::)?Vec<.*> as (?:std::ops::)?Index<(?:std::ops::)?RangeFrom<usize>>>::index|core::slice::index::<impl (?:std::ops::)?Index<(?:std::ops::)?RangeFrom<usize>> for \[.*\]>::index')
def slice_index_from(ex, m, a, fr, dest):
    items, lo, hi = seq_items(deref(a[0]))
    start = a[1].fields[0]
    i = ex.concretize(start, 0, hi - lo + 1, 'slice index')
    if i > hi - lo:
        raise Panic('range start index out of range for slice', fr.name)
    return Slice(items, lo + i, hi)


@model(r'(?:core|std|alloc)::slice::<impl \[.*\]>::(first|last)|(?:std::vec::)?Vec::<.*>::(first|last)|(?:std::collections::)?VecDeque::<.*>::(front|back)')
def slice_first_last(ex, m, a, fr, dest):
    items, lo, hi = seq_items(deref(a[0]))
    if hi == lo:
        return none()
    which = m.group(1) or m.group(2) or m.group(3)
    idx = lo if which in ('first', 'front') else hi - 1
    return some(Ref(items, idx))


@model(r'(?:core|std|alloc)::slice::<impl \[.*\]>::iter|(?:core|std|alloc)::slice::<impl \[.*\]>::iter_mut|(?:std::vec::)?Vec::<.*>::iter|(?:std::collections::)?VecDeque::<.*>::iter|<&(?:mut )?(?:std::vec::)?Vec<.*> as IntoIterator>::into_iter|<&(?:mut )?\[.*\] as IntoIterator>::into_iter')
def slice_iter(ex, m, a, fr, dest):
    v0 = deref(a[0])
    if type(v0).__name__ == 'Data':
        from .env import DataBytesIter
        return DataBytesIter(v0)
    items, lo, hi = seq_items(deref(a[0]))
    return PyIter((Ref(items, i, True) for i in range(lo, hi)), hi - lo)


@model(r'<(?:std::vec::)?Vec<.*> as IntoIterator>::into_iter|(?:std::vec::)?Vec::<.*>::into_iter|<\[.*; \d+\] as IntoIterator>::into_iter|(?:std::vec::)?Vec::<.*>::drain::<.*>|<(?:std::collections::)?VecDeque<.*> as IntoIterator>::into_iter')
def vec_into_iter(ex, m, a, fr, dest):
    v = deref(a[0])
    items = list(v.items)
    if 'drain' in m.group(0):
        v.items.clear()
    return PyIter(iter(items), len(items))


class PyIter(Model):
    """Any Rust iterator, modelled as a Python iterator of values."""
    ty = 'PyIter'

    def __init__(self, it, size=None):
        self.it = it
        self.size = size
        self.peeked = []

    def next(self):
        if self.peeked:
            return self.peeked.pop(0)
        for x in self.it:
            return some(x)
        return none()


def as_pyiter(ex, v):
    v = deref(v)
    if isinstance(v, PyIter):
        return v
    if isinstance(v, VecV):
        items = list(v.items)
        return PyIter(iter(items), len(items))
    if isinstance(v, Slice):
        return PyIter((Ref(v.items, i) for i in range(v.lo, v.hi)), v.hi - v.lo)
    if isinstance(v, Agg) and last_seg(v.ty) == 'Option':
        return PyIter(iter(v.fields[:1] if v.variant == 1 else []), None)
    if hasattr(v, 'as_pyiter'):
        return v.as_pyiter(ex)
    raise Unsupported('not an iterator: %r' % (v,))


def drain(it):
    out = []
    while True:
        o = it.next()
        if o.variant == 0:
            return out
        out.append(o.fields[0])


@model(r'<.* as Iterator>::next|(?:std::iter::)?Peekable::<.*>::next')
def iter_next(ex, m, a, fr, dest):
    it = deref(a[0])
    if isinstance(it, PyIter):
        return it.next()
    return NotImplemented


@model(r'<.* as Iterator>::peekable(?:::<.*>)?|<.* as Iterator>::by_ref(?:::<.*>)?|<.* as Iterator>::fuse(?:::<.*>)?')
def iter_peekable(ex, m, a, fr, dest):
    return as_pyiter(ex, a[0])


@model(r'(?:std::iter::)?Peekable::<.*>::peek')
def iter_peek(ex, m, a, fr, dest):
    it = deref(a[0])
    if not it.peeked:
        it.peeked.append(it.next())
    o = it.peeked[0]
    return some(Ref(o.fields, 0)) if o.variant == 1 else none()


@model(r'<.* as Iterator>::map::<.*>')
def iter_map(ex, m, a, fr, dest):
    it = as_pyiter(ex, a[0])
    f = a[1]
    return PyIter((ex.call_closure(f, [x]) for x in _gen(it)), it.size)


def _gen(it):
    while True:
        o = it.next()
        if o.variant == 0:
            return
        yield o.fields[0]


@model(r'<.* as Iterator>::filter::<.*>')
def iter_filter(ex, m, a, fr, dest):
    it = as_pyiter(ex, a[0])
    f = a[1]

    def g():
        for x in _gen(it):
            if ex.branch(ex.call_closure(f, [Ref([x], 0)]), 'filter'):
                yield x
    return PyIter(g())


@model(r'<.* as Iterator>::filter_map::<.*>')
def iter_filter_map(ex, m, a, fr, dest):
    it = as_pyiter(ex, a[0])
    f = a[1]

    def g():
        for x in _gen(it):
            o = ex.call_closure(f, [x])
            if o.variant == 1:
                yield o.fields[0]
    return PyIter(g())


@model(r'<.* as Iterator>::flat_map::<.*>')
def iter_flat_map(ex, m, a, fr, dest):
    it = as_pyiter(ex, a[0])
    f = a[1]

    def g():
        for x in _gen(it):
            inner = as_pyiter(ex, ex.call_closure(f, [x]))
            for y in _gen(inner):
                yield y
    return PyIter(g())


@model(r'<.* as Iterator>::flatten(?:::<.*>)?')
def iter_flatten(ex, m, a, fr, dest):
    it = as_pyiter(ex, a[0])

    def g():
        for x in _gen(it):
            for y in _gen(as_pyiter(ex, x)):
                yield y
    return PyIter(g())


@model(r'<.* as Iterator>::rev(?:::<.*>)?|<.* as DoubleEndedIterator>::rev(?:::<.*>)?')
def iter_rev(ex, m, a, fr, dest):
    it = as_pyiter(ex, a[0])
    items = drain(it)
    items.reverse()
    return PyIter(iter(items), len(items))


@model(r'<.* as Iterator>::cloned(?:::<.*>)?|<.* as Iterator>::copied(?:::<.*>)?')
def iter_cloned(ex, m, a, fr, dest):
    it = as_pyiter(ex, a[0])
    return PyIter((clone_value(ex, deref(x)) for x in _gen(it)), it.size)


@model(r'<.* as Iterator>::enumerate(?:::<.*>)?')
def iter_enumerate(ex, m, a, fr, dest):
    it = as_pyiter(ex, a[0])
    return PyIter((Agg('tuple', None, [i, x]) for i, x in enumerate(_gen(it))), it.size)


@model(r'<.* as Iterator>::chain::<.*>')
def iter_chain(ex, m, a, fr, dest):
    i1, i2 = as_pyiter(ex, a[0]), as_pyiter(ex, a[1])

    def g():
        for x in _gen(i1):
            yield x
        for x in _gen(i2):
            yield x
    return PyIter(g())


@model(r'<.* as Iterator>::all::<.*>')
def iter_all(ex, m, a, fr, dest):
    it = as_pyiter(ex, a[0])
    for x in _gen(it):
        if not ex.branch(ex.call_closure(a[1], [x]), 'all'):
            return False
    return True


@model(r'<.* as Iterator>::any::<.*>')
def iter_any(ex, m, a, fr, dest):
    it = as_pyiter(ex, a[0])
    for x in _gen(it):
        if ex.branch(ex.call_closure(a[1], [x]), 'any'):
            return True
    return False


@model(r'<.* as Iterator>::for_each::<.*>')
def iter_for_each(ex, m, a, fr, dest):
    it = as_pyiter(ex, a[0])
    for x in _gen(it):
        ex.call_closure(a[1], [x])
    return UNIT


@model(r'<.* as Iterator>::count(?:::<.*>)?')
def iter_count(ex, m, a, fr, dest):
    return len(drain(as_pyiter(ex, a[0])))


@model(r'<.* as Iterator>::sum::<(\w+)>')
def iter_sum(ex, m, a, fr, dest):
    t = 0
    for x in _gen(as_pyiter(ex, a[0])):
        t = t + deref(x)
    ty = m.group(1)
    if ty in INT_BITS and is_sym(t):
        if not ex.branch(in_range(t, ty), 'sum overflow'):
            ex.note('overflow', 'Iterator::sum::<%s> in %s' % (ty, fr.name))
            ex.env.setdefault('overflowed', []).append('sum in ' + fr.name)
            t = wrap(t, ty)
    elif ty in INT_BITS and not in_range(t, ty):
        ex.env.setdefault('overflowed', []).append('sum in ' + fr.name)
        t = wrap(t, ty)
    return t


@model(r'<.* as Iterator>::max(?:::<.*>)?|<.* as Iterator>::min(?:::<.*>)?')
def iter_max(ex, m, a, fr, dest):
    items = drain(as_pyiter(ex, a[0]))
    if not items:
        return none()
    want_max = m.group(0).endswith('max')
    best = items[0]
    for x in items[1:]:
        o = ex.do_call(fr, '<T as Ord>::cmp', [Ref([best], 0), Ref([x], 0)], None) if not isinstance(x, int) else ordering(ite(b_lt(best, x), -1, ite(b_lt(x, best), 1, 0)))
        v = o.variant
        if is_sym(v):
            v = ex.concretize(v, -1, 1, 'max')
        if want_max and v <= 0:
            best = x
        if not want_max and v > 0:
            best = x
    return some(best)


@model(r'<.* as Iterator>::collect::<(.*)>|<.* as Itertools>::collect_vec|<(.*) as FromIterator<.*>>::from_iter::<.*>')
def iter_collect(ex, m, a, fr, dest):
    target = m.group(1) or m.group(2) or 'Vec'
    items = drain(as_pyiter(ex, a[0]))
    t = last_seg(target)
    if t in ('Vec', 'VecDeque'):
        return VecV(items, t)
    if t == 'HashSet':
        s = SetV()
        for x in items:
            s.insert(ex, x)
        return s
    if t == 'HashMap':
        mp = MapV()
        for x in items:
            mp.insert(ex, x.fields[0], x.fields[1])
        return mp
    if t == 'String':
        out = ''
        for x in items:
            out = str_concat(out, x if isinstance(x, (str, SymStr)) else SymStr([x], 1))
        return str_simplify(out)
    raise Unsupported('collect into ' + target)


@model(r'<.* as Itertools>::sorted|<.* as Itertools>::sorted_unstable')
def iter_sorted(ex, m, a, fr, dest):
    items = drain(as_pyiter(ex, a[0]))
    items = sort_values(ex, items, lambda x, y: generic_cmp(ex, x, y, fr))
    return PyIter(iter(items), len(items))


@model(r'<(?:std::vec::)?Vec<.*> as Extend<.*>>::extend::<.*>|(?:std::vec::)?Vec::<.*>::extend_from_slice|<(?:std::collections::)?VecDeque<.*> as Extend<.*>>::extend::<.*>')
def vec_extend(ex, m, a, fr, dest):
    v = vec_of(a[0])
    for x in drain(as_pyiter(ex, a[1])):
        v.items.append(x if not isinstance(x, Ref) else clone_value(ex, x.get()))
    return UNIT


@model(r'<(?:std::vec::)?Vec<.*> as Clone>::clone|(?:core|std|alloc)::slice::<impl \[.*\]>::to_vec|<(?:std::vec::)?Vec<.*> as From<&\[.*\]>>::from|<\[.*\] as ToOwned>::to_owned')
def vec_clone(ex, m, a, fr, dest):
    v = deref(a[0])
    if not isinstance(v, (VecV, Slice)):
        return v
    items, lo, hi = seq_items(v)
    return VecV([clone_value(ex, x) for x in items[lo:hi]])


@model(r'(?:std::vec::)?Vec::<.*>::retain::<.*>')
def vec_retain(ex, m, a, fr, dest):
    v = vec_of(a[0])
    keep = []
    for x in v.items:
        if ex.branch(ex.call_closure(a[1], [Ref([x], 0)]), 'retain'):
            keep.append(x)
    v.items[:] = keep
    return UNIT


@model(r'(?:core|std|alloc)::slice::<impl \[.*\]>::contains|(?:std::vec::)?Vec::<.*>::contains')
def slice_contains(ex, m, a, fr, dest):
    items, lo, hi = seq_items(deref(a[0]))
    x = deref(a[1])
    for y in items[lo:hi]:
        if ex.branch(values_eq(ex, y, x), 'contains'):
            return True
    return False


def generic_cmp(ex, x, y, fr):
    """Ord::cmp on two values -> python int -1/0/1 (forking if needed)."""
    x, y = deref(x), deref(y)
    if isinstance(x, (str, SymStr)):
        v = str_cmp(x, y)
    elif isinstance(x, (int,)) or is_sym(x):
        v = ite(b_lt(x, y), -1, ite(b_lt(y, x), 1, 0))
    elif isinstance(x, Agg):
        t = type_tag(x)
        cands = ex.prog.fn_index.get((t, 'Ord', 'cmp'))
        if cands:
            v = ex.call_fn(cands[0][0], [Ref([x], 0), Ref([y], 0)]).variant
        else:
            v = 0
            for fx, fy in zip(x.fields, y.fields):
                v = generic_cmp(ex, fx, fy, fr)
                if v != 0:
                    break
            return v
    elif hasattr(x, 'cmp_key'):
        v = ite(b_lt(x.cmp_key(), y.cmp_key()), -1, ite(b_lt(y.cmp_key(), x.cmp_key()), 1, 0))
    else:
        raise Unsupported('generic_cmp of %r' % (x,))
    if is_sym(v):
        v = ex.concretize(v, -1, 1, 'cmp')
    return v


def sort_values(ex, items, cmp):
    """Insertion sort driven by a (possibly forking) comparator: deterministic for a given decision sequence."""
    out = []
    for x in items:
        i = len(out)
        while i > 0 and cmp(out[i - 1], x) > 0:
            i -= 1
        out.insert(i, x)
    return out


@model(r'(?:core|std|alloc)::slice::<impl \[.*\]>::sort_unstable_by::<.*>|(?:core|std|alloc)::slice::<impl \[.*\]>::sort_by::<.*>')
def slice_sort_by(ex, m, a, fr, dest):
    s = a[0]
    items, lo, hi = seq_items(s)
    f = a[1]

    def cmp(x, y):
        v = ex.call_closure(f, [Ref([x], 0), Ref([y], 0)]).variant
        if is_sym(v):
            v = ex.concretize(v, -1, 1, 'sort cmp')
        return v
    items[lo:hi] = sort_values(ex, items[lo:hi], cmp)
    return UNIT


@model(r'(?:core|std|alloc)::slice::<impl \[.*\]>::sort_unstable|(?:core|std|alloc)::slice::<impl \[.*\]>::sort')
def slice_sort(ex, m, a, fr, dest):
    items, lo, hi = seq_items(a[0])
    items[lo:hi] = sort_values(ex, items[lo:hi], lambda x, y: generic_cmp(ex, x, y, fr))
    return UNIT


@model(r'(?:core|std|alloc)::slice::<impl \[.*\]>::binary_search_by_key::<.*>')
def slice_binary_search_by_key(ex, m, a, fr, dest):
    # the real algorithm (core::slice::binary_search_by), so that unsorted input behaves as in Rust
    items, lo0, hi0 = seq_items(deref(a[0]))
    key = a[1]
    f = a[2]
    size = hi0 - lo0
    if size == 0:
        return err(0)
    base = 0
    while size > 1:
        half = size // 2
        mid = base + half
        k = ex.call_closure(f, [Ref(items, lo0 + mid)])
        c = generic_cmp(ex, k, key, fr)
        base = base if c > 0 else mid
        size -= half
    k = ex.call_closure(f, [Ref(items, lo0 + base)])
    c = generic_cmp(ex, k, key, fr)
    if c == 0:
        return ok(base)
    return err(base + (1 if c < 0 else 0))


# ============================================================================ clone / eq of arbitrary values
def clone_value(ex, v):
    if isinstance(v, Agg):
        t = last_seg(v.ty) if v.ty else None
        if t in ('Arc', 'Rc'):
            return v
        return Agg(v.ty, v.variant, [clone_value(ex, x) for x in v.fields], v.vname, v.extra)
    if isinstance(v, VecV):
        return VecV([clone_value(ex, x) for x in v.items], v.ty)
    if hasattr(v, 'clone_model'):
        return v.clone_model()
    return v


@model(r'<(?:std::option::)?Option<.*> as Clone>::clone|<(?:std::result::)?Result<.*> as Clone>::clone|<\(.*\) as Clone>::clone|<(?:bool|u8|u16|u32|u64|usize|i32|i64|char) as Clone>::clone')
def agg_clone(ex, m, a, fr, dest):
    return clone_value(ex, deref(a[0]))


def values_eq(ex, x, y):
    x, y = deref(x), deref(y)
    if isinstance(x, (str, SymStr)) or isinstance(y, (str, SymStr)):
        return str_eq(x, y)
    if isinstance(x, Agg) and isinstance(y, Agg):
        if x.variant is not None or y.variant is not None:
            if is_sym(x.variant) or is_sym(y.variant):
                if x.fields or y.fields:
                    raise Unsupported('eq of symbolic-variant enums with fields')
                return eq(x.variant, y.variant)
            if x.variant != y.variant:
                return False
        t = type_tag(x)
        cands = ex.prog.fn_index.get((t, 'PartialEq', 'eq')) if t else None
        if cands and len(cands) == 1:
            return ex.call_fn(cands[0][0], [Ref([x], 0), Ref([y], 0)])
        return b_and(*[values_eq(ex, p, q) for p, q in zip(x.fields, y.fields)])
    if isinstance(x, VecV) and isinstance(y, VecV):
        if len(x.items) != len(y.items):
            return False
        return b_and(*[values_eq(ex, p, q) for p, q in zip(x.items, y.items)])
    if hasattr(x, 'eq_model'):
        return x.eq_model(ex, y)
    if x is UNIT and y is UNIT:
        return True
    return eq(x, y)


@model(r'<(?:std::option::)?Option<.*> as PartialEq>::(eq|ne)|<(?:std::vec::)?Vec<.*> as PartialEq>::(eq|ne)|<\[.*\] as PartialEq>::(eq|ne)|<&.* as PartialEq>::(eq|ne)|<\(.*\) as PartialEq>::(eq|ne)|<(?:u8|u16|u32|u64|usize|i32|i64|bool|char) as PartialEq>::(eq|ne)|<(?:std::result::)?Result<.*> as PartialEq>::(eq|ne)')
def generic_eq(ex, m, a, fr, dest):
    r = values_eq(ex, a[0], a[1])
    ne = any(g == 'ne' for g in m.groups())
    return b_not(r) if ne else r


# ============================================================================ sets / maps
class SetV(Model):
    """HashSet<T> / BTreeSet<T>: list of pairwise-distinct elements (distinctness is decided by forking)."""
    ty = 'HashSet'

    def __init__(self, items=None):
        self.items = items if items is not None else []

    def find(self, ex, x):
        for i, y in enumerate(self.items):
            if ex.branch(values_eq(ex, y, x), 'set lookup'):
                return i
        return None

    def insert(self, ex, x):
        if self.find(ex, x) is not None:
            return False
        self.items.append(x)
        return True

    def clone_model(self):
        return SetV(list(self.items))

    def default_like(self):
        return SetV()

    def as_pyiter(self, ex):
        items = list(self.items)
        return PyIter((Ref(items, i) for i in range(len(items))), len(items))


class MapV(Model):
    ty = 'HashMap'

    def __init__(self, items=None):
        self.items = items if items is not None else []   # list of [k, v]

    def find(self, ex, k):
        for i, kv in enumerate(self.items):
            if ex.branch(values_eq(ex, kv[0], k), 'map lookup'):
                return i
        return None

    def insert(self, ex, k, v):
        i = self.find(ex, k)
        if i is not None:
            old = self.items[i][1]
            self.items[i][1] = v
            return some(old)
        self.items.append([k, v])
        return none()

    def clone_model(self):
        return MapV([list(kv) for kv in self.items])

    def default_like(self):
        return MapV()

    def as_pyiter(self, ex):
        items = self.items
        return PyIter((Agg('tuple', None, [Ref(kv, 0), Ref(kv, 1)]) for kv in list(items)), len(items))


@model(r'(?:std::collections::)?(?:HashSet|BTreeSet)::<.*>::new|<(?:std::collections::)?HashSet<.*> as Default>::default')
def set_new(ex, m, a, fr, dest):
    return SetV()


@model(r'(?:std::collections::)?(?:HashMap|BTreeMap)::<.*>::new|<(?:std::collections::)?HashMap<.*> as Default>::default')
def map_new(ex, m, a, fr, dest):
    return MapV()


@model(r'(?:std::collections::)?(?:HashSet|BTreeSet)::<.*>::insert')
def set_insert(ex, m, a, fr, dest):
    return deref(a[0]).insert(ex, a[1])


@model(r'(?:std::collections::)?(?:HashSet|BTreeSet)::<.*>::contains::<.*>')
def set_contains(ex, m, a, fr, dest):
    return deref(a[0]).find(ex, deref(a[1])) is not None


@model(r'(?:std::collections::)?(?:HashSet|BTreeSet)::<.*>::remove::<.*>')
def set_remove(ex, m, a, fr, dest):
    s = deref(a[0])
    i = s.find(ex, deref(a[1]))
    if i is None:
        return False
    del s.items[i]
    return True


@model(r'(?:std::collections::)?(?:HashSet|BTreeSet|HashMap|BTreeMap)::<.*>::(len)')
def set_len(ex, m, a, fr, dest):
    return len(deref(a[0]).items)


@model(r'(?:std::collections::)?(?:HashSet|BTreeSet|HashMap|BTreeMap)::<.*>::is_empty')
def set_is_empty(ex, m, a, fr, dest):
    return len(deref(a[0]).items) == 0


@model(r'(?:std::collections::)?(?:HashSet|BTreeSet)::<.*>::iter|<&(?:std::collections::)?HashSet<.*> as IntoIterator>::into_iter|(?:std::collections::)?(?:HashMap|BTreeMap)::<.*>::iter|<&(?:std::collections::)?HashMap<.*> as IntoIterator>::into_iter')
def set_iter(ex, m, a, fr, dest):
    return deref(a[0]).as_pyiter(ex)


@model(r'<(?:std::collections::)?HashSet<.*> as IntoIterator>::into_iter')
def set_into_iter(ex, m, a, fr, dest):
    items = list(deref(a[0]).items)
    return PyIter(iter(items), len(items))


@model(r'<(?:std::collections::)?HashMap<.*> as IntoIterator>::into_iter')
def map_into_iter(ex, m, a, fr, dest):
    items = list(deref(a[0]).items)
    return PyIter((Agg('tuple', None, [k, v]) for k, v in items), len(items))


@model(r'(?:std::collections::)?HashMap::<.*>::keys')
def map_keys(ex, m, a, fr, dest):
    items = deref(a[0]).items
    return PyIter((Ref(kv, 0) for kv in list(items)), len(items))


@model(r'(?:std::collections::)?HashSet::<.*>::difference::<.*>|(?:std::collections::)?HashSet::<.*>::difference')
def set_difference(ex, m, a, fr, dest):
    s, o = deref(a[0]), deref(a[1])
    out = []
    for i, x in enumerate(s.items):
        if o.find(ex, x) is None:
            out.append(Ref(s.items, i))
    return PyIter(iter(out), len(out))


@model(r'<(?:std::collections::)?(?:HashSet|HashMap)<.*> as Clone>::clone')
def set_clone(ex, m, a, fr, dest):
    return deref(a[0]).clone_model()


@model(r'(?:std::collections::)?HashMap::<.*>::insert')
def map_insert(ex, m, a, fr, dest):
    return deref(a[0]).insert(ex, a[1], a[2])


@model(r'(?:std::collections::)?HashMap::<.*>::get::<.*>')
def map_get(ex, m, a, fr, dest):
    mp = deref(a[0])
    i = mp.find(ex, deref(a[1]))
    return none() if i is None else some(Ref(mp.items[i], 1))


@model(r'(?:std::collections::)?HashMap::<.*>::contains_key::<.*>')
def map_contains_key(ex, m, a, fr, dest):
    return deref(a[0]).find(ex, deref(a[1])) is not None


class EntryV(Model):
    ty = 'MapEntry'

    def __init__(self, mp, idx, key):
        self.mp, self.idx, self.key = mp, idx, key


@model(r'(?:std::collections::)?HashMap::<.*>::entry')
def map_entry(ex, m, a, fr, dest):
    mp = deref(a[0])
    return EntryV(mp, mp.find(ex, a[1]), a[1])


@model(r'(?:std::collections::)?hash_map::Entry::<.*>::and_modify::<.*>')
def entry_and_modify(ex, m, a, fr, dest):
    e = a[0]
    if e.idx is not None:
        ex.call_closure(a[1], [Ref(e.mp.items[e.idx], 1, True)])
    return e


@model(r'(?:std::collections::)?hash_map::Entry::<.*>::or_insert')
def entry_or_insert(ex, m, a, fr, dest):
    e = a[0]
    if e.idx is None:
        e.mp.items.append([e.key, a[1]])
        e.idx = len(e.mp.items) - 1
    return Ref(e.mp.items[e.idx], 1, True)


# ============================================================================ formatting
class Formatter(Model):
    ty = 'Formatter'

    def __init__(self, flags=None, width=None, precision=None):
        self.out = ''
        self.flags, self.width, self.precision = flags, width, precision

    def pad(self, s):
        """Formatter::pad semantics for strings (fill / align / width; precision truncates)."""
        if self.width is None or not isinstance(s, str):
            return s
        n = len(s)
        if n >= self.width:
            return s
        fill = chr(self.flags & 0x1fffff) if self.flags is not None else ' '
        align = (self.flags >> 29) & 3 if self.flags is not None else 3
        padn = self.width - n
        if align == 1:
            return fill * padn + s
        if align == 2:
            return fill * (padn // 2) + s + fill * (padn - padn // 2)
        return s + fill * padn

    def pad_integral(self, digits):
        if self.width is None or len(digits) >= self.width:
            return digits
        if self.flags is not None and (self.flags >> 24) & 1:
            return '0' * (self.width - len(digits)) + digits
        fill = chr(self.flags & 0x1fffff) if self.flags is not None else ' '
        align = (self.flags >> 29) & 3 if self.flags is not None else 3
        padn = self.width - len(digits)
        if align == 0:
            return digits + fill * padn
        if align == 2:
            return fill * (padn // 2) + digits + fill * (padn - padn // 2)
        return fill * padn + digits


class FmtArg(Model):
    ty = 'FmtArg'

    def __init__(self, kind, ty, val):
        self.kind, self.vty, self.val = kind, ty, val


class FmtArguments(Model):
    ty = 'Arguments'

    def __init__(self, template, args):
        self.template, self.args = template, args


@model(r'core::fmt::rt::Argument::new_(display|debug|lower_hex|upper_hex)::<(.*)>|core::fmt::rt::Argument::<.*>::new_(display|debug|lower_hex|upper_hex)::<(.*)>')
def fmt_arg_new(ex, m, a, fr, dest):
    return FmtArg(m.group(1) or m.group(3), m.group(2) or m.group(4), a[0])


@model(r'(?:std::fmt::|core::fmt::)?Arguments::new::<\d+, \d+>|(?:std::fmt::|core::fmt::)?Arguments::<.*>::new::<\d+, \d+>')
def fmt_arguments_new(ex, m, a, fr, dest):
    tpl = deref(a[0])
    items, lo, hi = seq_items(deref(a[1]))
    return FmtArguments(tpl.data, items[lo:hi])


@model(r'(?:std::fmt::|core::fmt::)?Arguments::from_str|(?:std::fmt::|core::fmt::)?Arguments::<.*>::from_str|(?:std::fmt::|core::fmt::)?Arguments::<.*>::new_const::<.*>')
def fmt_arguments_from_str(ex, m, a, fr, dest):
    s = deref(a[0])
    return FmtArguments(None, [s])


def render_arguments(ex, fa, fr):
    if fa.template is None:
        return fa.args[0]
    t = fa.template
    out = ''
    i = 0
    argi = 0
    while True:
        n = t[i]
        i += 1
        if n == 0:
            return out
        if n < 0x80:
            out = str_concat(out, t[i:i + n].decode('utf-8'))
            i += n
        elif n == 0x80:
            ln = t[i] | (t[i + 1] << 8)
            i += 2
            out = str_concat(out, t[i:i + ln].decode('utf-8'))
            i += ln
        else:
            flags = width = prec = None
            if n != 0xC0:
                if n & 1:
                    flags = int.from_bytes(t[i:i + 4], 'little')
                    i += 4
                if n & 2:
                    width = t[i] | (t[i + 1] << 8)
                    i += 2
                if n & 4:
                    prec = t[i] | (t[i + 1] << 8)
                    i += 2
                if n & 8:
                    argi = t[i] | (t[i + 1] << 8)
                    i += 2
                if n & 16 or n & 32:
                    raise Unsupported('dynamic width/precision in format template')
            arg = fa.args[argi]
            argi += 1
            out = str_simplify(str_concat(out, render_arg(ex, arg, Formatter(flags, width, prec), fr)))


def render_arg(ex, arg, f, fr):
    v = deref(arg.val)
    if arg.kind == 'display':
        if isinstance(v, str):
            return f.pad(v)
        if isinstance(v, SymStr):
            if f.width is not None:
                raise Unsupported('padding a symbolic string')
            return v
        if isinstance(v, bool):
            return f.pad('true' if v else 'false')
        if isinstance(v, int):
            return f.pad_integral(str(v))
        if is_sym(v):
            raise Unsupported('formatting a symbolic integer')
        if isinstance(v, FmtArguments):
            return render_arguments(ex, v, fr)
        if hasattr(v, 'display'):
            return f.pad(v.display(ex))
        t = type_tag(v)
        cands = ex.prog.fn_index.get((t, 'Display', 'fmt')) if t else None
        if cands:
            ex.call_fn(cands[0][0], [Ref([v], 0), Ref([f], 0, True)])
            return f.out
        raise Unsupported('Display of %r' % (v,))
    # Debug and others: an opaque rendering (never used for storage paths)
    if isinstance(v, str):
        return repr(v)
    return '<dbg>'


@model(r'(?:std::fmt::|alloc::fmt::)?format')
def fmt_format(ex, m, a, fr, dest):
    return render_arguments(ex, a[0], fr)


@model(r'(?:std::fmt::|core::fmt::)?Formatter::<.*>::pad|(?:std::fmt::|core::fmt::)?Formatter::pad')
def formatter_pad(ex, m, a, fr, dest):
    f = deref(a[0])
    f.out = str_concat(f.out, f.pad(deref(a[1])))
    return ok(UNIT)


@model(r'(?:std::fmt::|core::fmt::)?Formatter::<.*>::write_str|(?:std::fmt::|core::fmt::)?Formatter::write_str|<(?:std::fmt::|core::fmt::)?Formatter<.*> as (?:std::fmt::)?Write>::write_str')
def formatter_write_str(ex, m, a, fr, dest):
    f = deref(a[0])
    f.out = str_concat(f.out, deref(a[1]))
    return ok(UNIT)


@model(r'(?:std::fmt::|core::fmt::)?Formatter::<.*>::write_fmt|(?:std::fmt::|core::fmt::)?Formatter::write_fmt')
def formatter_write_fmt(ex, m, a, fr, dest):
    f = deref(a[0])
    f.out = str_concat(f.out, render_arguments(ex, a[1], fr))
    return ok(UNIT)


@model(r'<.* as ToString>::to_string')
def generic_to_string(ex, m, a, fr, dest):
    return render_arg(ex, FmtArg('display', '', a[0]), Formatter(), fr)


@model(r'(?:core::panicking::|std::rt::)?(panic|panic_fmt|panic_display|unreachable_display|panic_explicit|begin_panic|assert_failed|panic_nounwind|panic_cannot_unwind|panic_const::\w+)(?:::<.*>)?')
def panicking(ex, m, a, fr, dest):
    msg = ''
    for x in a:
        x = deref(x)
        if isinstance(x, str):
            msg = x
            break
        if isinstance(x, FmtArguments):
            try:
                msg = render_arguments(ex, x, fr)
            except Unsupported:
                msg = '<unrenderable panic message>'
            break
    raise Panic('panic: %s' % (msg,), fr.name if fr else '')


@model(r'core::panicking::assert_failed::<.*>')
def assert_failed(ex, m, a, fr, dest):
    raise Panic('assert_eq!/assert_ne! failed', fr.name)


# ============================================================================ tracing (statically disabled)
@model(r'<(?:tracing::)?Level as PartialOrd<(?:tracing::level_filters::)?LevelFilter>>::le')
def tracing_level_le(ex, m, a, fr, dest):
    return False


@model(r'(?:tracing::)?(?:level_filters::)?LevelFilter::current')
def tracing_current(ex, m, a, fr, dest):
    return Opaque('LevelFilter::OFF')


@model(r'(?:tracing::)?(?:span::)?Span::(none|current|enter|entered|in_scope|record)(?:::<.*>)?|<(?:tracing::)?(?:span::)?(?:Span|Entered|EnteredSpan)(?:<.*>)? as Drop>::drop|(?:tracing::)?(?:span::)?Span::new(?:::<.*>)?')
def tracing_span(ex, m, a, fr, dest):
    return Opaque('Span')


@model(r'<.* as (?:tracing::)?Instrument>::instrument|<.* as (?:tracing::instrument::)?Instrument>::in_current_span')
def tracing_instrument(ex, m, a, fr, dest):
    return a[0]


# ============================================================================ more str models
def _split_once(ex, s, sep, from_right, what):
    s = as_symstr(s)
    L = len(s.chars)
    idxs = list(range(L))
    if from_right:
        idxs.reverse()
    conds, nob = [], []
    for j in idxs:
        conds.append(b_and(b_lt(j, s.n), eq(s.chars[j], sep), *nob))
        nob.append(b_or(b_not(b_lt(j, s.n)), b_not(eq(s.chars[j], sep))))
    conds.append(b_and(*nob))
    i = ex.choose(conds, what)
    if i == L:
        return None
    return idxs[i]


@model(r'(?:core|std|alloc)::str::<impl str>::(rsplit_once|split_once)::<char>')
def str_split_once(ex, m, a, fr, dest):
    s = as_symstr(deref(a[0]))
    j = _split_once(ex, s, a[1], m.group(1) == 'rsplit_once', m.group(1))
    if j is None:
        return none()
    left = SymStr(s.chars[:j], j)
    right = SymStr(s.chars[j + 1:], s.n - (j + 1))
    return some(Agg('tuple', None, [str_simplify(left), str_simplify(right)]))


@model(r'(?:core|std|alloc)::str::<impl str>::(rfind|find)::<char>')
def str_find_char(ex, m, a, fr, dest):
    s = as_symstr(deref(a[0]))
    j = _split_once(ex, s, a[1], m.group(1) == 'rfind', m.group(1))
    if j is None:
        return none()
    return some(SymStr(s.chars[:j], j).blen())


@model(r'(?:core|std|alloc)::str::<impl str>::(strip_suffix)::<char>')
def str_strip_suffix_char(ex, m, a, fr, dest):
    s = as_symstr(deref(a[0]))
    L = len(s.chars)
    conds = [b_and(eq(s.n, k), eq(s.chars[k - 1], a[1])) for k in range(1, L + 1)]
    conds.append(b_not(b_or(*conds)))
    i = ex.choose(conds, 'strip_suffix')
    if i == L:
        return none()
    return some(str_simplify(SymStr(s.chars[:i], i)))


@model(r'(?:core|std|alloc)::str::<impl str>::strip_prefix::<&str>|(?:core|std|alloc)::str::<impl str>::strip_prefix::<&(?:std::string::)?String>')
def str_strip_prefix_str(ex, m, a, fr, dest):
    s, p = deref(a[0]), deref(a[1])
    if isinstance(s, str) and isinstance(p, str):
        return some(s[len(p):]) if s.startswith(p) else none()
    s, p = as_symstr(s), as_symstr(p)
    if is_sym(p.n):
        raise Unsupported('strip_prefix with symbolic-length prefix')
    if ex.branch(str_starts_with(s, p), 'strip_prefix'):
        return some(str_simplify(s.slice_chars(p.n)))
    return none()


@model(r'<\[u8\] as Ord>::cmp|<&\[u8\] as Ord>::cmp|<\[u8\] as PartialOrd>::partial_cmp|<&\[u8\] as PartialOrd>::partial_cmp')
def bytes_cmp(ex, m, a, fr, dest):
    x, y = deref(a[0]), deref(a[1])
    cx, cy = concrete_bytes(x), concrete_bytes(y)
    if cx is not None and cy is not None:
        o = ordering(-1 if cx < cy else 1 if cx > cy else 0)
        return some(o) if 'partial_cmp' in m.group(0) else o
    sx, sy = bytes_as_symstr(x), bytes_as_symstr(y)
    if sx is not None and sy is not None:
        # byte order of UTF-8 equals code point order
        o = ordering(str_cmp(sx, sy))
        return some(o) if 'partial_cmp' in m.group(0) else o
    raise Unsupported('byte slice comparison of %r' % (x,))


@model(r'<\[u8\] as PartialEq>::(eq|ne)|<&\[u8\] as PartialEq>::(eq|ne)')
def bytes_eq(ex, m, a, fr, dest):
    x, y = deref(a[0]), deref(a[1])
    if isinstance(x, StrBytes) or isinstance(y, StrBytes):
        sx, sy = bytes_as_symstr(x), bytes_as_symstr(y)
        if sx is not None and sy is not None:
            r = str_eq(sx, sy)
            return r if (m.group(1) or m.group(2)) == 'eq' else b_not(r)
    return NotImplemented


@model(r'(?:std::cmp::)?Ordering::then_with::<.*>')
def ordering_then_with(ex, m, a, fr, dest):
    v = a[0].variant
    if is_sym(v):
        v = ex.concretize(v, -1, 1, 'then_with')
    if v != 0:
        return ordering(v)
    return ex.call_closure(a[1], [])


@model(r'(?:std::cmp::)?Ordering::then')
def ordering_then(ex, m, a, fr, dest):
    v, w = a[0].variant, a[1].variant
    return ordering(ite(eq(v, 0), w, v))


@model(r'(?:core|std|alloc)::slice::<impl \[.*\]>::sort_by_cached_key::<.*>|(?:core|std|alloc)::slice::<impl \[.*\]>::sort_by_key::<.*>|(?:core|std|alloc)::slice::<impl \[.*\]>::sort_unstable_by_key::<.*>')
def slice_sort_by_key(ex, m, a, fr, dest):
    items, lo, hi = seq_items(a[0])
    f = a[1]
    keyed = [(ex.call_closure(f, [Ref(items, i)]), items[i]) for i in range(lo, hi)]
    keyed = sort_values(ex, keyed, lambda x, y: generic_cmp(ex, x[0], y[0], fr))
    items[lo:hi] = [kv[1] for kv in keyed]
    return UNIT


@model(r'<\(.*\) as Ord>::cmp|<\(.*\) as PartialOrd>::partial_cmp')
def tuple_cmp(ex, m, a, fr, dest):
    v = generic_cmp(ex, a[0], a[1], fr)
    o = ordering(v)
    return some(o) if 'partial_cmp' in m.group(0) else o


@model(r'<(?:std::string::)?String as PartialOrd>::(lt|le|gt|ge)|<str as PartialOrd>::(lt|le|gt|ge)|<&str as PartialOrd>::(lt|le|gt|ge)')
def str_partial_ord(ex, m, a, fr, dest):
    v = str_cmp(deref(a[0]), deref(a[1]))
    k = [g for g in m.groups() if g][0]
    return {'lt': b_lt(v, 0), 'le': b_not(b_lt(0, v)), 'gt': b_lt(0, v), 'ge': b_not(b_lt(v, 0))}[k]


@model(r'<(?:std::string::)?String as PartialOrd>::partial_cmp|<str as PartialOrd>::partial_cmp')
def str_partial_cmp(ex, m, a, fr, dest):
    return some(ordering(str_cmp(deref(a[0]), deref(a[1]))))


@model(r'(?:std::option::)?Option::<\(&str, &str\)>::unwrap_or_default')
def opt_pair_default(ex, m, a, fr, dest):
    o = a[0]
    return o.fields[0] if o.variant == 1 else Agg('tuple', None, ['', ''])


@model(r'(?:core|std|alloc)::str::<impl str>::bytes|(?:core|std|alloc)::str::<impl str>::char_indices')
def str_bytes_iter(ex, m, a, fr, dest):
    s = deref(a[0])
    if not isinstance(s, str):
        raise Unsupported('bytes()/char_indices() of a symbolic string')
    if m.group(0).endswith('bytes'):
        return PyIter(iter(list(s.encode('utf-8'))), None)
    out, off = [], 0
    for ch in s:
        out.append(Agg('tuple', None, [off, ord(ch)]))
        off += len(ch.encode('utf-8'))
    return PyIter(iter(out), len(out))


@model(r'(?:core|std|alloc)::str::<impl str>::eq_ignore_ascii_case')
def str_eq_ignore_case(ex, m, a, fr, dest):
    x, y = deref(a[0]), deref(a[1])
    if isinstance(x, str) and isinstance(y, str):
        f = lambda t: ''.join(c.lower() if c.isascii() else c for c in t)
        return f(x) == f(y)
    raise Unsupported('eq_ignore_ascii_case on symbolic strings')


# ============================================================================ generic fallbacks (tried last)
@model(r'<(.*) as ToOwned>::to_owned')
def generic_to_owned(ex, m, a, fr, dest):
    return ex.do_call(fr, '<%s as Clone>::clone' % m.group(1), a, dest)


@model(r'<(.*) as Clone>::clone')
def generic_clone(ex, m, a, fr, dest):
    return clone_value(ex, deref(a[0]))


@model(r'<(.*) as PartialEq(?:<.*>)?>::(eq|ne)')
def generic_partial_eq(ex, m, a, fr, dest):
    r = values_eq(ex, a[0], a[1])
    return r if m.group(2) == 'eq' else b_not(r)


@model(r'<(.*) as Default>::default')
def generic_default(ex, m, a, fr, dest):
    t = m.group(1)
    if last_seg(t) in ('Arc', 'Rc') and re.search(r'(?:OnceCell|OnceLock)<', t):
        return Agg('Arc', None, [OnceCellV()])
    if last_seg(t) in ('OnceCell', 'OnceLock'):
        return OnceCellV()
    if t in INT_BITS and t != 'bool':
        return 0
    if t == 'bool':
        return False
    if last_seg(t) == 'String':
        return ''
    if last_seg(t) in ('Vec', 'VecDeque'):
        return VecV([], last_seg(t))
    if last_seg(t) == 'Option':
        return none()
    if last_seg(t) == 'Duration':
        return Opaque('Duration')
    return NotImplemented


@model(r'<(u16|u32|u64|u128|usize|i16|i32|i64|i128|isize) as From<(u8|u16|u32|u64|i8|i16|i32|i64|bool|char)>>::from|<(u8|u16|u32|u64|i8|i16|i32|i64) as Into<(u16|u32|u64|u128|usize|i16|i32|i64|i128|isize)>>::into')
def int_widen(ex, m, a, fr, dest):
    """Lossless integer conversions (From is only implemented where no value is lost)."""
    v = a[0]
    if isinstance(v, bool):
        return 1 if v else 0
    return v


# ============================================================================ write-once cells (tokio::sync::OnceCell, std::sync::OnceLock)
class OnceCellV(Model):
    """A cell that is set at most once; shared by reference like the real one (an Arc around it aliases it)."""
    ty = 'OnceCell'

    def __init__(self):
        self.slot = [None]


def _once_ref(c):
    return Ref(c.slot, 0, False)


@model(r'(?:tokio::sync::)?OnceCell::<.*>::new(?:_with)?|(?:std::sync::)?OnceLock::<.*>::new|(?:tokio::sync::)?OnceCell::<.*>::const_new')
def once_new(ex, m, a, fr, dest):
    c = OnceCellV()
    if a and isinstance(a[0], Agg) and a[0].variant == 1:
        c.slot[0] = a[0].fields[0]
    return c


@model(r'(?:tokio::sync::)?OnceCell::<.*>::get|(?:std::sync::)?OnceLock::<.*>::get')
def once_get(ex, m, a, fr, dest):
    c = deref(a[0])
    return some(_once_ref(c)) if c.slot[0] is not None else none()


@model(r'(?:tokio::sync::)?OnceCell::<.*>::initialized')
def once_initialized(ex, m, a, fr, dest):
    return deref(a[0]).slot[0] is not None


@model(r'(?:tokio::sync::)?OnceCell::<.*>::set|(?:std::sync::)?OnceLock::<.*>::set')
def once_set(ex, m, a, fr, dest):
    c = deref(a[0])
    if c.slot[0] is not None:
        return err(a[1])
    c.slot[0] = a[1]
    return ok(UNIT)


def _once_fill(ex, c, clo, fallible, is_async):
    if c.slot[0] is not None:
        r = _once_ref(c)
        return ok(r) if fallible else r
    v = ex.call_closure(clo, [])
    if is_async:
        if isinstance(v, ReadyFuture):
            v = v.take(ex)
        else:
            p = ex.poll_coroutine(v)
            if p.variant != 0:
                raise Unsupported('OnceCell initialiser returned Pending')
            v = p.fields[0]
    if fallible:
        if v.variant != 0:
            return v
        v = v.fields[0]
    c.slot[0] = v
    r = _once_ref(c)
    return ok(r) if fallible else r


@model(r'(?:tokio::sync::)?OnceCell::<.*>::(get_or_try_init|get_or_init)::<.*>')
def once_get_or_init_async(ex, m, a, fr, dest):
    c, clo = deref(a[0]), a[1]
    fallible = m.group(1) == 'get_or_try_init'
    return ReadyFuture(lambda: _once_fill(ex, c, clo, fallible, True))


@model(r'(?:std::sync::)?OnceLock::<.*>::(get_or_try_init|get_or_init)::<.*>')
def once_get_or_init(ex, m, a, fr, dest):
    return _once_fill(ex, deref(a[0]), a[1], m.group(1) == 'get_or_try_init', False)


@model(r'(?:std::result::)?Result::<&.*>::cloned|(?:std::result::)?Result::<&.*>::copied')
def result_cloned(ex, m, a, fr, dest):
    r = a[0]
    if r.variant != 0:
        return r
    return ok(clone_value(ex, deref(r.fields[0])))


# ============================================================================ tracing catch-all (all levels statically off)
@model(r'(?:tracing::subscriber::)?Interest::is_never')
def tracing_is_never(ex, m, a, fr, dest):
    return True


@model(r'(?:tracing::__macro_support::)?__is_enabled|(?:tracing::)?(?:span::)?Span::is_disabled|(?:tracing::)?(?:span::)?Span::is_none')
def tracing_is_enabled(ex, m, a, fr, dest):
    return 'is_enabled' not in m.group(0)


@model(r'tracing::.*|(?:tracing::)?(?:span::)?Span::\w+(?:::<.*>)?|DefaultCallsite::\w+|<DefaultCallsite as .*>::\w+|<(?:tracing::)?(?:span::)?(?:Span|Entered<.*>|EnteredSpan) as .*>::\w+|(?:tracing::)?Metadata::<.*>::\w+|FieldSet::\w+|(?:tracing::)?Event::<.*>::\w+|(?:tracing::)?(?:field::)?debug::<.*>|(?:tracing::)?(?:field::)?display::<.*>')
def tracing_any(ex, m, a, fr, dest):
    return Opaque('tracing')


@model(r'<.* as IntoIterator>::into_iter')
def generic_into_iter(ex, m, a, fr, dest):
    v = a[0]
    if isinstance(v, Ref):
        t = v.get()
        if isinstance(t, (VecV, Slice)):
            items, lo, hi = seq_items(t)
            return PyIter((Ref(items, i, True) for i in range(lo, hi)), hi - lo)
        if hasattr(t, 'as_pyiter'):
            return t.as_pyiter(ex)
        return v
    if isinstance(v, VecV):
        items = list(v.items)
        return PyIter(iter(items), len(items))
    if isinstance(v, Slice):
        return PyIter((Ref(v.items, i, True) for i in range(v.lo, v.hi)), v.hi - v.lo)
    if isinstance(v, Agg) and last_seg(v.ty) == 'Option':
        return PyIter(iter(v.fields[:1] if v.variant == 1 else []), None)
    return v


@model(r'<(.*) as PartialOrd(<.*>)?>::(lt|le|gt|ge)')
def generic_partial_ord(ex, m, a, fr, dest):
    o = ex.do_call(fr, '<%s as PartialOrd%s>::partial_cmp' % (m.group(1), m.group(2) or ''), a, None)
    if o.variant == 0:
        return False
    v = o.fields[0].variant
    k = m.group(3)
    return {'lt': b_lt(v, 0), 'le': b_not(b_lt(0, v)), 'gt': b_lt(0, v), 'ge': b_not(b_lt(v, 0))}[k]


@model(r'<(u8|u16|u32|u64|usize|i32|i64|char) as PartialOrd>::partial_cmp')
def int_partial_cmp(ex, m, a, fr, dest):
    x, y = deref(a[0]), deref(a[1])
    return some(ordering(ite(b_lt(x, y), -1, ite(b_lt(y, x), 1, 0))))


# ============================================================================ more iterator adaptors
@model(r'<.* as (?:Iterator|DoubleEndedIterator)>::(find|rfind)::<.*>')
def iter_find(ex, m, a, fr, dest):
    items = drain(as_pyiter(ex, a[0]))
    if m.group(1) == 'rfind':
        items.reverse()
    for x in items:
        if ex.branch(ex.call_closure(a[1], [Ref([x], 0)]), 'find'):
            return some(x)
    return none()


@model(r'<.* as (?:Iterator|DoubleEndedIterator)>::(position|rposition)::<.*>')
def iter_position(ex, m, a, fr, dest):
    items = drain(as_pyiter(ex, a[0]))
    idxs = list(range(len(items)))
    if m.group(1) == 'rposition':
        idxs.reverse()
    for i in idxs:
        if ex.branch(ex.call_closure(a[1], [items[i]]), 'position'):
            return some(i)
    return none()


@model(r'<.* as Iterator>::last(?:::<.*>)?')
def iter_last(ex, m, a, fr, dest):
    items = drain(as_pyiter(ex, a[0]))
    return some(items[-1]) if items else none()


@model(r'<.* as Iterator>::nth(?:::<.*>)?')
def iter_nth(ex, m, a, fr, dest):
    it = as_pyiter(ex, a[0])
    n = ex.concretize(a[1], 0, 64, 'nth')
    o = none()
    for _ in range(n + 1):
        o = it.next()
        if o.variant == 0:
            return o
    return o


@model(r'<.* as DoubleEndedIterator>::next_back(?:::<.*>)?')
def iter_next_back(ex, m, a, fr, dest):
    it = deref(a[0])
    if not isinstance(it, PyIter):
        return NotImplemented
    items = drain(it)
    if not items:
        return none()
    last = items.pop()
    it.it = iter(items)
    return some(last)


@model(r'<.* as Iterator>::(take|skip)')
def iter_take_skip(ex, m, a, fr, dest):
    it = as_pyiter(ex, a[0])
    n = ex.concretize(a[1], 0, 1 << 20, 'take/skip')

    def g():
        for i, x in enumerate(_gen(it)):
            if m.group(1) == 'take':
                if i >= n:
                    return
                yield x
            elif i >= n:
                yield x
    return PyIter(g())


@model(r'<.* as Iterator>::(take_while|skip_while)::<.*>')
def iter_take_while(ex, m, a, fr, dest):
    it = as_pyiter(ex, a[0])
    f = a[1]

    def g():
        state = True
        for x in _gen(it):
            if m.group(1) == 'take_while':
                if not ex.branch(ex.call_closure(f, [Ref([x], 0)]), 'take_while'):
                    return
                yield x
            else:
                if state and ex.branch(ex.call_closure(f, [Ref([x], 0)]), 'skip_while'):
                    continue
                state = False
                yield x
    return PyIter(g())


@model(r'<.* as Iterator>::zip::<.*>')
def iter_zip(ex, m, a, fr, dest):
    i1, i2 = as_pyiter(ex, a[0]), as_pyiter(ex, a[1])
    return PyIter((Agg('tuple', None, [x, y]) for x, y in zip(_gen(i1), _gen(i2))))


@model(r'<.* as Iterator>::fold::<.*>')
def iter_fold(ex, m, a, fr, dest):
    acc = a[1]
    for x in _gen(as_pyiter(ex, a[0])):
        acc = ex.call_closure(a[2], [acc, x])
    return acc


@model(r'<.* as Iterator>::(max_by_key|min_by_key)::<.*>')
def iter_max_by_key(ex, m, a, fr, dest):
    items = drain(as_pyiter(ex, a[0]))
    if not items:
        return none()
    best, bk = items[0], ex.call_closure(a[1], [Ref([items[0]], 0)])
    for x in items[1:]:
        k = ex.call_closure(a[1], [Ref([x], 0)])
        c = generic_cmp(ex, k, bk, fr)
        if (m.group(1) == 'max_by_key' and c >= 0) or (m.group(1) == 'min_by_key' and c < 0):
            best, bk = x, k
    return some(best)


@model(r'<.* as Iterator>::(max_by|min_by)::<.*>')
def iter_max_by(ex, m, a, fr, dest):
    items = drain(as_pyiter(ex, a[0]))
    if not items:
        return none()
    best = items[0]
    for x in items[1:]:
        v = ex.call_closure(a[1], [Ref([best], 0), Ref([x], 0)]).variant
        if is_sym(v):
            v = ex.concretize(v, -1, 1, 'max_by')
        if (m.group(1) == 'max_by' and v <= 0) or (m.group(1) == 'min_by' and v > 0):
            best = x
    return some(best)


@model(r'<.* as Iterator>::size_hint|<.* as ExactSizeIterator>::len')
def iter_len(ex, m, a, fr, dest):
    it = deref(a[0])
    items = drain(it)
    it.it = iter(items)
    if 'size_hint' in m.group(0):
        return Agg('tuple', None, [len(items), some(len(items))])
    return len(items)


@model(r'<.* as Iterator>::inspect::<.*>')
def iter_inspect(ex, m, a, fr, dest):
    it = as_pyiter(ex, a[0])

    def g():
        for x in _gen(it):
            ex.call_closure(a[1], [Ref([x], 0)])
            yield x
    return PyIter(g())


@model(r'<.* as Itertools>::(sorted_by|sorted_unstable_by)::<.*>')
def iter_sorted_by(ex, m, a, fr, dest):
    items = drain(as_pyiter(ex, a[0]))

    def cmp(x, y):
        v = ex.call_closure(a[1], [Ref([x], 0), Ref([y], 0)]).variant
        return ex.concretize(v, -1, 1, 'sorted_by') if is_sym(v) else v
    items = sort_values(ex, items, cmp)
    return PyIter(iter(items), len(items))


@model(r'<.* as Itertools>::(sorted_by_key|sorted_unstable_by_key)::<.*>')
def iter_sorted_by_key(ex, m, a, fr, dest):
    items = drain(as_pyiter(ex, a[0]))
    keyed = [(ex.call_closure(a[1], [Ref([x], 0)]), x) for x in items]
    keyed = sort_values(ex, keyed, lambda p, q: generic_cmp(ex, p[0], q[0], fr))
    return PyIter(iter([kv[1] for kv in keyed]), len(keyed))


@model(r'<.* as Itertools>::(dedup|unique)')
def iter_dedup(ex, m, a, fr, dest):
    items = drain(as_pyiter(ex, a[0]))
    out = []
    for x in items:
        pool = out[-1:] if m.group(1) == 'dedup' else out
        if any(ex.branch(values_eq(ex, y, x), 'dedup') for y in pool):
            continue
        out.append(x)
    return PyIter(iter(out), len(out))


@model(r'<.* as Itertools>::join')
def iter_join(ex, m, a, fr, dest):
    items = drain(as_pyiter(ex, a[0]))
    sep = deref(a[1])
    out = ''
    for i, x in enumerate(items):
        if i:
            out = str_concat(out, sep)
        out = str_concat(out, render_arg(ex, FmtArg('display', '', x), Formatter(), fr))
    return str_simplify(out)


@model(r'(?:std::vec::)?Vec::<.*>::(insert|remove|swap_remove)')
def vec_insert_remove(ex, m, a, fr, dest):
    v = vec_of(a[0])
    i = ex.concretize(a[1], 0, len(v.items) + 1, 'vec index')
    if m.group(1) == 'insert':
        if i > len(v.items):
            raise Panic('insertion index out of bounds', fr.name)
        v.items.insert(i, a[2])
        return UNIT
    if i >= len(v.items):
        raise Panic('removal index out of bounds', fr.name)
    if m.group(1) == 'remove':
        return v.items.pop(i)
    x = v.items[i]
    v.items[i] = v.items[-1]
    v.items.pop()
    return x


@model(r'(?:std::vec::)?Vec::<.*>::(dedup|reverse)|(?:core|std|alloc)::slice::<impl \[.*\]>::reverse')
def vec_reverse(ex, m, a, fr, dest):
    items, lo, hi = seq_items(deref(a[0]))
    if 'reverse' in m.group(0):
        items[lo:hi] = items[lo:hi][::-1]
        return UNIT
    out = []
    for x in items[lo:hi]:
        if out and ex.branch(values_eq(ex, out[-1], x), 'dedup'):
            continue
        out.append(x)
    items[lo:hi] = out
    return UNIT


@model(r'(?:core|std|alloc)::slice::<impl \[.*\]>::(get|get_mut)::<usize>|(?:std::vec::)?Vec::<.*>::(get|get_mut)::<usize>')
def slice_get(ex, m, a, fr, dest):
    items, lo, hi = seq_items(deref(a[0]))
    i = ex.concretize(a[1], 0, hi - lo + 1, 'get') if not is_sym(a[1]) or True else a[1]
    if 0 <= i < hi - lo:
        return some(Ref(items, lo + i, True))
    return none()


@model(r'(?:core|std|alloc)::slice::<impl \[.*\]>::binary_search_by::<.*>')
def slice_binary_search_by(ex, m, a, fr, dest):
    items, lo0, hi0 = seq_items(deref(a[0]))
    f = a[1]
    size = hi0 - lo0
    if size == 0:
        return err(0)

    def cmp(i):
        v = ex.call_closure(f, [Ref(items, lo0 + i)]).variant
        return ex.concretize(v, -1, 1, 'bsearch') if is_sym(v) else v
    base = 0
    while size > 1:
        half = size // 2
        mid = base + half
        base = base if cmp(mid) > 0 else mid
        size -= half
    c = cmp(base)
    if c == 0:
        return ok(base)
    return err(base + (1 if c < 0 else 0))


@model(r'(?:core|std|alloc)::slice::<impl \[.*\]>::partition_point::<.*>')
def slice_partition_point(ex, m, a, fr, dest):
    items, lo0, hi0 = seq_items(deref(a[0]))
    n = 0
    # binary search as in core (left-most false)
    size = hi0 - lo0
    left, right = 0, size
    while left < right:
        mid = left + (right - left) // 2
        if ex.branch(ex.call_closure(a[1], [Ref(items, lo0 + mid)]), 'partition_point'):
            left = mid + 1
        else:
            right = mid
    return left


@model(r'<\[.*\] as (?:std::ops::)?Index<(?:std::ops::)?(Range|RangeTo|RangeInclusive|RangeFull)<?(?:usize)?>?>>::index|<(?:std::vec::)?Vec<.*> as (?:std::ops::)?Index<(?:std::ops::)?(Range|RangeTo|RangeFull)<?(?:usize)?>?>>::index|core::slice::index::<impl (?:std::ops::)?Index<(?:std::ops::)?(Range|RangeTo)<usize>> for \[.*\]>::index')
def slice_index_range(ex, m, a, fr, dest):
    items, lo, hi = seq_items(deref(a[0]))
    kind = [g for g in m.groups() if g][0]
    r = a[1]
    n = hi - lo
    if kind == 'RangeFull':
        return Slice(items, lo, hi)
    if kind == 'RangeTo':
        s, e = 0, ex.concretize(r.fields[0], 0, n + 1, 'range')
    else:
        s, e = ex.concretize(r.fields[0], 0, n + 1, 'range'), ex.concretize(r.fields[1], 0, n + 1, 'range')
    if s > e or e > n:
        raise Panic('slice index out of range', fr.name)
    return Slice(items, lo + s, lo + e)


def _char_index_of_byte(ex, s, k, fr, what):
    """For SymStr s and concrete byte offset k: fork on the number of leading chars that make up k bytes."""
    if k == 0:
        return 0
    conds, outs = [], []
    for nchar in range(0, len(s.chars) + 1):
        pre = SymStr(s.chars[:nchar], nchar)
        conds.append(b_and(b_not(b_lt(s.n, nchar)), eq(pre.blen(), k)))
        outs.append(nchar)
    conds.append(b_not(b_or(*conds)))
    i = ex.choose(conds, what)
    if i == len(outs):
        raise Panic('byte index %d is out of range or not a char boundary' % k, fr.name if fr else '')
    return outs[i]


@model(r'<str as (?:std::ops::)?Index<(?:std::ops::)?(RangeTo|Range|RangeToInclusive|RangeInclusive)<usize>>>::index|<(?:std::string::)?String as (?:std::ops::)?Index<(?:std::ops::)?(RangeTo|Range)<usize>>>::index|core::str::traits::<impl (?:std::ops::)?Index<(?:std::ops::)?(RangeTo|Range)<usize>> for str>::index')
def str_index_range(ex, m, a, fr, dest):
    kind = [g for g in m.groups() if g][0]
    s = deref(a[0])
    r = a[1]
    if kind in ('RangeTo', 'RangeToInclusive'):
        start, end = 0, r.fields[0]
    else:
        start, end = r.fields[0], r.fields[1]
    if kind.endswith('Inclusive'):
        end = end + 1
    if isinstance(s, str):
        b = s.encode('utf-8')
        start = ex.concretize(start, 0, len(b) + 1, 'str range')
        end = ex.concretize(end, 0, len(b) + 1, 'str range')
        if start > end or end > len(b):
            raise Panic('byte range out of bounds of str', fr.name)
        try:
            b[:start].decode('utf-8')
            return b[start:end].decode('utf-8')
        except UnicodeDecodeError:
            raise Panic('byte index is not a char boundary', fr.name)
    maxb = len(s.chars) * 4
    start = ex.concretize(start, 0, maxb, 'str range')
    end = ex.concretize(end, 0, maxb, 'str range')
    if start > end:
        raise Panic('slice index starts after end', fr.name)
    cs = _char_index_of_byte(ex, s, start, fr, 'range start boundary')
    ce = _char_index_of_byte(ex, s, end, fr, 'range end boundary')
    return str_simplify(SymStr(s.chars[cs:ce], ce - cs))


class UninitBox(Model):
    """Box<MaybeUninit<[T; N]>> as produced by the vec![..] lowering: field chains lead to the one array slot."""
    ty = 'UninitBox'

    def __init__(self):
        self.slot = [UNINIT]

    def mir_field(self, idx, ty):
        if ty.lstrip().startswith('['):
            return self.slot, 0
        return [self], 0


@model(r'(?:std::boxed::)?Box::<\[.*; \d+\]>::new_uninit')
def box_new_uninit(ex, m, a, fr, dest):
    return UninitBox()


@model(r'(?:std::boxed::)?box_assume_init_into_vec_unsafe::<.*>')
def box_into_vec(ex, m, a, fr, dest):
    b = a[0]
    arr = b.slot[0]
    return VecV(list(arr.items))


@model(r'(?:alloc::slice::|std::slice::)?<impl \[.*\]>::into_vec::<.*>|(?:core|std|alloc)::slice::<impl \[.*\]>::into_vec')
def slice_into_vec(ex, m, a, fr, dest):
    b = deref(a[0])
    if isinstance(b, Agg) and b.fields:
        b = deref(b.fields[0])
    items, lo, hi = seq_items(b)
    return VecV(list(items[lo:hi]))


# ============================================================================ Path / PathBuf as strings
class PathV(Model):
    """std::path::PathBuf / &Path: a '/'-separated string (possibly symbolic)."""
    ty = 'PathBuf'
    unsized = True

    def __init__(self, s):
        self.s = s

    def clone_model(self):
        return self

    def eq_model(self, ex, other):
        other = deref(other)
        return str_eq(self.s, other.s if isinstance(other, PathV) else other)

    def display(self, ex):
        return self.s

    def __repr__(self):
        return 'Path(%r)' % (self.s,)


def path_str(v):
    v = deref(v)
    if isinstance(v, PathV):
        return v.s
    if isinstance(v, (str, SymStr)):
        return v
    if isinstance(v, Agg) and v.fields and isinstance(deref(v.fields[0]), (str, SymStr)):
        return deref(v.fields[0])          # e.g. Apath as AsRef<Path>
    raise Unsupported('not a path: %r' % (v,))


@model(r'<(?:std::path::)?PathBuf as From<.*>>::from|(?:std::path::)?Path::new::<.*>|(?:std::path::)?Path::to_path_buf|(?:std::path::)?Path::to_owned|<(?:std::path::)?Path as ToOwned>::to_owned|<(?:std::path::)?PathBuf as (?:std::ops::)?Deref>::deref|(?:std::path::)?PathBuf::as_path|<.* as AsRef<(?:std::path::)?Path>>::as_ref|<.* as Into<(?:std::path::)?PathBuf>>::into|<(?:std::path::)?PathBuf as Clone>::clone|(?:std::path::)?PathBuf::from|<(?:std::path::)?Path as AsRef<(?:std::ffi::)?OsStr>>::as_ref|(?:std::path::)?Path::as_os_str|<(?:std::path::)?PathBuf as Borrow<(?:std::path::)?Path>>::borrow|<&(?:std::path::)?Path as Into<(?:std::path::)?PathBuf>>::into')
def path_identity(ex, m, a, fr, dest):
    return PathV(path_str(a[0]))


@model(r'(?:std::path::)?Path::join::<.*>')
def path_join(ex, m, a, fr, dest):
    base, rel = path_str(a[0]), path_str(a[1])
    rs = as_symstr(rel)
    # Path::join replaces the base when the argument is absolute
    if rs.chars and ex.branch(b_and(b_lt(0, rs.n), eq(rs.chars[0], 47)), 'join absolute?'):
        return PathV(rel)
    if ex.branch(eq(rs.n, 0), 'join empty?'):
        return PathV(base)
    bs = as_symstr(base)
    ends = b_and(b_lt(0, bs.n), eq(bs.elem(zint(bs.n) - 1), 47))
    if ex.branch(ends, 'base ends with /'):
        return PathV(str_simplify(str_concat(base, rel)))
    return PathV(str_simplify(str_concat(str_concat(base, '/'), rel)))


@model(r'(?:std::path::)?PathBuf::push::<.*>')
def path_push(ex, m, a, fr, dest):
    r = a[0]
    cur = r.get()
    r.set(path_join(ex, m, [cur, a[1]], fr, dest))
    return UNIT


@model(r'(?:std::ffi::)?OsStr::to_string_lossy|(?:std::ffi::)?OsString::to_string_lossy')
def osstr_to_string_lossy(ex, m, a, fr, dest):
    # names in the models are valid UTF-8: the lossy conversion is the identity on them (non-UTF-8 names are outside every harness)
    return deref(a[0])


@model(r'(?:std::path::)?Path::to_string_lossy|(?:std::path::)?Path::display|(?:std::path::)?Path::to_str')
def path_to_string(ex, m, a, fr, dest):
    s = path_str(a[0])
    if m.group(0).endswith('to_str'):
        return some(s)
    if m.group(0).endswith('to_string_lossy'):
        return Agg('Cow', 0, [s], 'Borrowed')
    return PathV(s)


@model(r'(?:std::borrow::)?Cow::<.*>::into_owned|<(?:std::borrow::)?Cow<.*> as (?:std::ops::)?Deref>::deref|<(?:std::borrow::)?Cow<.*> as AsRef<.*>>::as_ref|<(?:std::borrow::)?Cow<.*> as ToString>::to_string')
def cow_into_owned(ex, m, a, fr, dest):
    c = deref(a[0])
    if isinstance(c, Agg) and last_seg(c.ty) == 'Cow':
        return deref(c.fields[0])
    return c


@model(r'<(?:std::boxed::)?Box<dyn .*> as Fn(?:Mut|Once)?<.*>>::call(?:_mut|_once)?|<&(?:std::boxed::)?Box<dyn .*> as Fn(?:Mut|Once)?<.*>>::call(?:_mut|_once)?')
def boxed_fn_call(ex, m, a, fr, dest):
    f = deref(a[0])
    if isinstance(f, Agg) and last_seg(f.ty) == 'Box':
        f = deref(f.fields[0])
    args = a[1].fields if isinstance(a[1], Agg) else []
    if callable(f):
        return f(*args)
    return ex.call_closure(f, list(args))


@model(r'(?:std::result::)?Result::<.*>::is_ok_and::<.*>')
def res_is_ok_and(ex, m, a, fr, dest):
    o = a[0]
    if o.variant != 0:
        return False
    return ex.call_closure(a[1], [o.fields[0]])


@model(r'(?:std::result::)?Result::<.*>::is_err_and::<.*>')
def res_is_err_and(ex, m, a, fr, dest):
    o = a[0]
    if o.variant != 1:
        return False
    return ex.call_closure(a[1], [o.fields[0]])


@model(r'(?:core|std)::num::<impl (\w+)>::checked_(add|sub|mul)|(\w+)::checked_(add|sub|mul)')
def int_checked_op(ex, m, a, fr, dest):
    ty = m.group(1) or m.group(3)
    op = m.group(2) or m.group(4)
    if ty not in INT_BITS:
        return NotImplemented
    x, y = a[0], a[1]
    if op == 'mul' and is_sym(x) and is_sym(y):
        raise Unsupported('symbolic * symbolic')
    v = x + y if op == 'add' else x - y if op == 'sub' else x * y
    if ex.branch(in_range(v, ty), 'checked_' + op):
        return some(v)
    return none()


@model(r'(?:core|std)::num::<impl (\w+)>::(saturating|wrapping)_(add|sub)|(\w+)::(saturating|wrapping)_(add|sub)')
def int_sat_op(ex, m, a, fr, dest):
    ty = m.group(1) or m.group(4)
    mode = m.group(2) or m.group(5)
    op = m.group(3) or m.group(6)
    if ty not in INT_BITS:
        return NotImplemented
    v = a[0] + a[1] if op == 'add' else a[0] - a[1]
    if ex.branch(in_range(v, ty), mode):
        return v
    if mode == 'wrapping':
        return wrap(v, ty)
    lo, hi = int_range(ty)
    return hi if ex.branch(b_lt(hi, v), 'saturate high') else lo


@model(r'(?:std::option::)?Option::<.*>::filter::<.*>')
def opt_filter(ex, m, a, fr, dest):
    o = a[0]
    if o.variant == 0:
        return none()
    if ex.branch(ex.call_closure(a[1], [Ref(o.fields, 0)]), 'Option::filter'):
        return o
    return none()


@model(r'(?:std::option::)?Option::<.*>::(or|xor)')
def opt_or(ex, m, a, fr, dest):
    o, p = a[0], a[1]
    if m.group(1) == 'or':
        return o if o.variant == 1 else p
    if o.variant == 1 and p.variant == 0:
        return o
    if o.variant == 0 and p.variant == 1:
        return p
    return none()


@model(r'(?:std::option::)?Option::<.*>::or_else::<.*>')
def opt_or_else(ex, m, a, fr, dest):
    o = a[0]
    return o if o.variant == 1 else ex.call_closure(a[1], [])


@model(r'(?:std::option::)?Option::<.*>::zip::<.*>')
def opt_zip(ex, m, a, fr, dest):
    o, p = a[0], a[1]
    if o.variant == 1 and p.variant == 1:
        return some(Agg('tuple', None, [o.fields[0], p.fields[0]]))
    return none()


@model(r'(?:std::option::)?Option::<.*>::(get_or_insert_with|insert)(?:::<.*>)?')
def opt_insert(ex, m, a, fr, dest):
    r = a[0]
    o = r.get()
    if m.group(1) == 'insert':
        o = some(a[1])
        r.set(o)
    elif o.variant == 0:
        o = some(ex.call_closure(a[1], []))
        r.set(o)
    return Ref(o.fields, 0, True)


@model(r'(?:std::option::)?Option::<.*>::replace')
def opt_replace(ex, m, a, fr, dest):
    r = a[0]
    o = r.get()
    r.set(some(a[1]))
    return o


@model(r'(?:core::bool::)?<impl bool>::then_some::<.*>')
def bool_then_some(ex, m, a, fr, dest):
    return some(a[1]) if ex.branch(a[0], 'then_some') else none()


@model(r'(?:core::bool::)?<impl bool>::then::<.*>')
def bool_then(ex, m, a, fr, dest):
    return some(ex.call_closure(a[1], [])) if ex.branch(a[0], 'then') else none()


@model(r'(?:std::option::)?Option::<.*>::(unwrap_unchecked)')
def opt_unwrap_unchecked(ex, m, a, fr, dest):
    return a[0].fields[0]


@model(r'(?:std::option::)?Option::<.*>::inspect::<.*>')
def opt_inspect(ex, m, a, fr, dest):
    o = a[0]
    if o.variant == 1:
        ex.call_closure(a[1], [Ref(o.fields, 0)])
    return o


@model(r'(?:std::option::)?Option::<.*>::(and)::<.*>')
def opt_and(ex, m, a, fr, dest):
    return a[1] if a[0].variant == 1 else none()


@model(r'<(?:std::collections::)?VecDeque<.*> as From<\[.*; \d+\]>>::from|<(?:std::vec::)?Vec<.*> as From<\[.*; \d+\]>>::from')
def vec_from_array(ex, m, a, fr, dest):
    from .interp import seq_items
    items, lo, hi = seq_items(a[0])
    return VecV(list(items[lo:hi]), 'VecDeque' if 'VecDeque' in m.group(0) else 'Vec')


def _substr_at(s, p, i):
    """Formula: the concrete-length pattern p occurs in s at char index i."""
    k = p.n
    if i + k > len(s.chars):
        return False
    return b_and(b_not(b_lt(s.n, i + k)), *[eq(s.chars[i + j], p.chars[j]) for j in range(k)])


@model(r'(?:core|std|alloc)::str::<impl str>::contains::<&str>|(?:core|std|alloc)::str::<impl str>::contains::<&(?:std::string::)?String>')
def str_contains_str(ex, m, a, fr, dest):
    s, p = deref(a[0]), deref(a[1])
    if isinstance(s, str) and isinstance(p, str):
        return p in s
    s, p = as_symstr(s), as_symstr(p)
    if is_sym(p.n):
        raise Unsupported('contains with symbolic-length pattern')
    if p.n == 0:
        return True
    return b_or(*[_substr_at(s, p, i) for i in range(len(s.chars))])


@model(r'(?:core|std|alloc)::str::<impl str>::ends_with::<&str>|(?:core|std|alloc)::str::<impl str>::ends_with::<&(?:std::string::)?String>')
def str_ends_with_str2(ex, m, a, fr, dest):
    s, p = deref(a[0]), deref(a[1])
    if isinstance(s, str) and isinstance(p, str):
        return s.endswith(p)
    s, p = as_symstr(s), as_symstr(p)
    if is_sym(p.n):
        raise Unsupported('ends_with with symbolic-length pattern')
    if p.n == 0:
        return True
    # the occurrence at i is a suffix when i + |p| == |s|
    return b_or(*[b_and(_substr_at(s, p, i), eq(s.n, i + p.n)) for i in range(len(s.chars))])


@model(r'(?:core|std|alloc)::str::<impl str>::trim_start_matches::<&str>|(?:core|std|alloc)::str::<impl str>::trim_start_matches::<&(?:std::string::)?String>')
def str_trim_start_matches_str(ex, m, a, fr, dest):
    s, p = deref(a[0]), deref(a[1])
    if isinstance(s, str) and isinstance(p, str):
        while p and s.startswith(p):
            s = s[len(p):]
        return s
    s, p = as_symstr(s), as_symstr(p)
    if is_sym(p.n):
        # decide the pattern's length by forking over the possible values
        k = ex.concretize(p.n, 0, len(p.chars), 'pattern length')
        p = SymStr(p.chars[:k], k)
    if p.n == 0:
        return str_simplify(s)
    while len(s.chars) >= p.n and ex.branch(str_starts_with(s, p), 'trim_start_matches'):
        s = s.slice_chars(p.n)
    return str_simplify(s)


@model(r'(?:std::collections::)?VecDeque::<.*>::make_contiguous')
def vecdeque_make_contiguous(ex, m, a, fr, dest):
    v = deref(a[0])
    return Slice(v.items, 0, len(v.items))


@model(r'(?:std::collections::)?VecDeque::<.*>::(as_mut_slices|as_slices)')
def vecdeque_as_slices(ex, m, a, fr, dest):
    v = deref(a[0])
    return Agg('tuple', None, [Slice(v.items, 0, len(v.items)), Slice(v.items, len(v.items), len(v.items))])


@model(r'(?:std::vec::)?IntoIter::<.*>::as_slice|(?:std::vec::)?IntoIter::<.*>::as_mut_slice|(?:core::slice::|std::slice::)?Iter::<.*>::as_slice')
def into_iter_as_slice(ex, m, a, fr, dest):
    it = deref(a[0])
    if not isinstance(it, PyIter):
        raise Unsupported('as_slice of %r' % (it,))
    rest = [x.fields[0] for x in it.peeked] + list(it.it)
    it.peeked = []
    it.it = iter(rest)
    items = [deref(x) if isinstance(x, Ref) else x for x in rest]
    return Slice(items, 0, len(items))


@model(r'(?:core|std|alloc)::slice::<impl \[.*\]>::windows')
def slice_windows(ex, m, a, fr, dest):
    from .interp import seq_items
    items, lo, hi = seq_items(a[0])
    n = a[1]
    if is_sym(n):
        raise Unsupported('windows of symbolic size')
    if n == 0:
        raise Panic('window size must be non-zero', fr.name if fr else None)
    return PyIter((Slice(items, i, i + n) for i in range(lo, hi - n + 1)), max(0, hi - lo - n + 1))


@model(r'(?:core::)?(?:char::methods::)?<impl char>::is_control|char::is_control')
def char_is_control(ex, m, a, fr, dest):
    c = deref(a[0])
    # Unicode general category Cc: U+0000..U+001F and U+007F..U+009F
    return b_or(b_and(b_not(b_lt(c, 0)), b_lt(c, 0x20)), b_and(b_not(b_lt(c, 0x7f)), b_lt(c, 0xa0)))


@model(r'<(?:std::option::)?Option<.*> as PartialOrd>::(partial_cmp|lt|le|gt|ge)')
def option_partial_cmp(ex, m, a, fr, dest):
    x, y = deref(a[0]), deref(a[1])
    if x.variant != y.variant:
        v = -1 if x.variant == 0 else 1          # None < Some(_)
    elif x.variant == 0:
        v = 0
    else:
        v = generic_cmp(ex, x.fields[0], y.fields[0], fr)
        if is_sym(v):
            v = ex.concretize(v, -1, 1, 'Option cmp')
    op = m.group(1)
    if op == 'partial_cmp':
        return some(ordering(v))
    return {'lt': v < 0, 'le': v <= 0, 'gt': v > 0, 'ge': v >= 0}[op]


@model(r'(?:core|std|alloc)::slice::<impl \[.*\]>::(is_sorted_by_key|is_sorted_by|is_sorted)(?:::<.*>)?')
def slice_is_sorted(ex, m, a, fr, dest):
    from .interp import seq_items
    items, lo, hi = seq_items(a[0])
    kind = m.group(1)
    xs = items[lo:hi]
    if kind == 'is_sorted_by_key':
        keys = [ex.call_closure(a[1], [Ref([x], 0)]) for x in xs]
        return all(generic_cmp(ex, keys[i], keys[i + 1], fr) <= 0 for i in range(len(keys) - 1))
    if kind == 'is_sorted_by':
        for i in range(len(xs) - 1):
            r = ex.call_closure(a[1], [Ref([xs[i]], 0), Ref([xs[i + 1]], 0)])
            if not ex.branch(r, 'is_sorted_by'):
                return False
        return True
    return all(generic_cmp(ex, xs[i], xs[i + 1], fr) <= 0 for i in range(len(xs) - 1))


@model(r'(?:core|std|alloc)::slice::<impl \[.*\]>::binary_search')
def slice_binary_search(ex, m, a, fr, dest):
    # the real algorithm (core::slice::binary_search_by), so that unsorted input behaves as in Rust
    from .interp import seq_items
    items, lo0, hi0 = seq_items(deref(a[0]))
    key = deref(a[1])
    size = hi0 - lo0
    if size == 0:
        return err(0)
    base = 0
    while size > 1:
        half = size // 2
        mid = base + half
        c = generic_cmp(ex, items[lo0 + mid], key, fr)
        base = base if c > 0 else mid
        size -= half
    c = generic_cmp(ex, items[lo0 + base], key, fr)
    if c == 0:
        return ok(base)
    return err(base + (1 if c < 0 else 0))


@model(r'(?:core|std)::num::<impl (\w+)>::(rem_euclid|div_euclid|abs|signum|min|max)|(i8|i16|i32|i64|isize|u8|u16|u32|u64|usize)::(rem_euclid|div_euclid|abs|signum)')
def int_misc_op(ex, m, a, fr, dest):
    ty = m.group(1) or m.group(3)
    op = m.group(2) or m.group(4)
    if ty not in INT_BITS:
        return NotImplemented
    x = a[0]
    if op in ('rem_euclid', 'div_euclid'):
        d = a[1]
        if not ex.branch(b_not(eq(d, 0)), 'euclid divisor non-zero'):
            raise Panic('attempt to calculate the remainder with a divisor of zero', fr.name if fr else None)
        if is_sym(x) or is_sym(d):
            # Euclidean division: 0 <= r < |d|, x = q*d + r  (z3's integer div/mod are Euclidean for positive and negative divisors)
            q, r = zint(x) / zint(d), zint(x) % zint(d)
            return r if op == 'rem_euclid' else q
        r = x % abs(d)
        return r if op == 'rem_euclid' else (x - r) // d
    if op == 'abs':
        return ite(b_lt(x, 0), -x, x) if is_sym(x) else abs(x)
    if op == 'signum':
        return ite(b_lt(x, 0), -1, ite(b_lt(0, x), 1, 0)) if is_sym(x) else (x > 0) - (x < 0)
    y = a[1]
    if op == 'min':
        return ite(b_lt(y, x), y, x) if (is_sym(x) or is_sym(y)) else min(x, y)
    return ite(b_lt(x, y), y, x) if (is_sym(x) or is_sym(y)) else max(x, y)


@model(r'(?:std::result::)?Result::<.*>::map_or::<.*>')
def res_map_or(ex, m, a, fr, dest):
    o = a[0]
    if o.variant == 0:
        return ex.call_closure(a[2], [o.fields[0]])
    return a[1]


@model(r'(?:std::result::)?Result::<.*>::map_or_else::<.*>')
def res_map_or_else(ex, m, a, fr, dest):
    o = a[0]
    if o.variant == 0:
        return ex.call_closure(a[2], [o.fields[0]])
    return ex.call_closure(a[1], [o.fields[0]])


@model(r'(?:std::result::)?Result::<.*>::(unwrap_or_default|unwrap_or_else)(?:::<.*>)?')
def res_unwrap_or_x(ex, m, a, fr, dest):
    o = a[0]
    if o.variant == 0:
        return o.fields[0]
    if m.group(1) == 'unwrap_or_else':
        return ex.call_closure(a[1], [o.fields[0]])
    raise Unsupported('Result::unwrap_or_default of Err')


@model(r'(?:core|std|alloc)::str::<impl str>::contains::<fn\(char\) -> bool.*>|(?:core|std|alloc)::str::<impl str>::contains::<\{closure.*>')
def str_contains_pred(ex, m, a, fr, dest):
    s = as_symstr(deref(a[0]))
    out = False
    for i in range(len(s.chars)):
        if is_sym(s.n) or i < s.n:
            hit = ex.call_closure(a[1], [s.chars[i]])
            out = b_or(out, b_and(b_lt(i, s.n), hit))
    return out


@model(r'(?:std::path::)?Path::parent')
def path_parent(ex, m, a, fr, dest):
    s = str_simplify(path_str(a[0]))
    if not isinstance(s, str):
        raise Unsupported('Path::parent of a symbolic path')
    t = s.rstrip('/')
    if t == '' or '/' not in t:
        return none() if t == '' else some(PathV(''))
    par = t.rsplit('/', 1)[0]
    return some(PathV(par if par else '/'))


@model(r'(?:std::path::)?Path::file_name')
def path_file_name(ex, m, a, fr, dest):
    s = str_simplify(path_str(a[0]))
    if not isinstance(s, str):
        raise Unsupported('Path::file_name of a symbolic path')
    t = s.rstrip('/')
    if t == '' or t.endswith('..'):
        return none()
    return some(t.rsplit('/', 1)[-1])


@model(r'(?:std::ffi::)?(?:OsString|OsStr)::as_encoded_bytes|(?:std::ffi::)?os_str::<impl .*>::as_encoded_bytes|(?:std::ffi::)?OsStr::as_bytes|<(?:std::ffi::)?OsStr as (?:std::os::unix::ffi::)?OsStrExt>::as_bytes')
def osstr_bytes(ex, m, a, fr, dest):
    return StrBytes(as_symstr(deref(a[0])))


@model(r'(?:core|std|alloc)::slice::<impl \[u8\]>::(starts_with|ends_with)')
def bytes_starts_with(ex, m, a, fr, dest):
    x, y = deref(a[0]), deref(a[1])

    def as_s(v):
        if isinstance(v, StrBytes):
            return v.s
        c = concrete_bytes(v)
        if c is not None:
            return SymStr.lit(c.decode('utf-8', 'replace'))
        raise Unsupported('byte slice %r' % (v,))
    sx, sy = as_s(x), as_s(y)
    if m.group(1) == 'starts_with':
        return str_starts_with(sx, sy)
    cx, cy = sx.concrete(), sy.concrete()
    if cx is None or cy is None:
        raise Unsupported('symbolic byte ends_with')
    return cx.endswith(cy)


@model(r'<(?:std::ffi::)?OsString as (?:std::ops::)?Deref>::deref|<(?:std::ffi::)?OsString as AsRef<(?:std::ffi::)?OsStr>>::as_ref|(?:std::ffi::)?OsString::as_os_str')
def osstring_deref(ex, m, a, fr, dest):
    return a[0]


# ---------------------------------------------------------------------------- a further batch of std models (refactoring vocabulary)
@model(r'(?:core|std|alloc)::slice::<impl \[.*\]>::get(?:_mut)?(?:::<(.*)>)?')
def slice_get(ex, m, a, fr, dest):
    from .interp import seq_items
    items, lo, hi = seq_items(a[0])
    idx = deref(a[1])
    n = hi - lo
    if isinstance(idx, Agg):          # a range
        nm = last_seg(idx.ty)
        st = idx.fields[0] if nm in ('Range', 'RangeFrom') else 0
        en = idx.fields[1] if nm == 'Range' else (idx.fields[0] if nm == 'RangeTo' else n)
        st = ex.concretize(st, 0, n + 1, 'range start') if is_sym(st) else st
        en = ex.concretize(en, 0, n + 1, 'range end') if is_sym(en) else en
        if st <= en <= n:
            return some(Slice(items, lo + st, lo + en))
        return none()
    if is_sym(idx):
        idx = ex.concretize(idx, 0, n, 'slice index')
    if 0 <= idx < n:
        return some(Ref(items, lo + idx, 'mut' in m.group(0)))
    return none()


@model(r'(?:core|std|alloc)::slice::<impl \[.*\]>::split_at(?:_mut)?')
def slice_split_at(ex, m, a, fr, dest):
    from .interp import seq_items
    items, lo, hi = seq_items(a[0])
    mid = a[1]
    if is_sym(mid):
        mid = ex.concretize(mid, 0, hi - lo + 1, 'split_at')
    if mid > hi - lo:
        raise Panic('mid > len in split_at', fr.name if fr else None)
    return Agg('tuple', None, [Slice(items, lo, lo + mid), Slice(items, lo + mid, hi)])


@model(r'(?:core|std|alloc)::slice::<impl \[.*\]>::(split_first|split_last)')
def slice_split_first(ex, m, a, fr, dest):
    from .interp import seq_items
    items, lo, hi = seq_items(a[0])
    if hi == lo:
        return none()
    if m.group(1) == 'split_first':
        return some(Agg('tuple', None, [Ref(items, lo), Slice(items, lo + 1, hi)]))
    return some(Agg('tuple', None, [Ref(items, hi - 1), Slice(items, lo, hi - 1)]))


@model(r'(?:core|std|alloc)::slice::<impl \[(?!u8\]).*\]>::(starts_with|ends_with)')
def slice_starts_with(ex, m, a, fr, dest):
    from .interp import seq_items
    xs, lo, hi = seq_items(a[0])
    ys, lo2, hi2 = seq_items(a[1])
    n, k = hi - lo, hi2 - lo2
    if k > n:
        return False
    off = lo if m.group(1) == 'starts_with' else hi - k
    for i in range(k):
        if not ex.branch(values_eq(ex, xs[off + i], ys[lo2 + i]), 'slice prefix'):
            return False
    return True


@model(r'(?:core|std|alloc)::slice::<impl \[.*\]>::chunks')
def slice_chunks(ex, m, a, fr, dest):
    from .interp import seq_items
    items, lo, hi = seq_items(a[0])
    n = a[1]
    if is_sym(n):
        raise Unsupported('chunks of symbolic size')
    if n == 0:
        raise Panic('chunk size must be non-zero', fr.name if fr else None)
    out = [Slice(items, i, min(i + n, hi)) for i in range(lo, hi, n)]
    return PyIter(iter(out), len(out))


@model(r'(?:std::option::)?Option::<.*>::flatten')
def opt_flatten(ex, m, a, fr, dest):
    o = a[0]
    return o.fields[0] if o.variant == 1 else none()


@model(r'(?:std::result::)?Result::<.*>::err')
def res_err(ex, m, a, fr, dest):
    o = a[0]
    return some(o.fields[0]) if o.variant != 0 else none()


@model(r'(?:core|std|alloc)::str::<impl str>::strip_suffix::<&str>|(?:core|std|alloc)::str::<impl str>::strip_suffix::<&(?:std::string::)?String>')
def str_strip_suffix_str(ex, m, a, fr, dest):
    s, p = deref(a[0]), deref(a[1])
    if isinstance(s, str) and isinstance(p, str):
        return some(s[:len(s) - len(p)]) if s.endswith(p) else none()
    s, p = as_symstr(s), as_symstr(p)
    if is_sym(p.n):
        raise Unsupported('strip_suffix with symbolic-length pattern')
    if ex.branch(str_ends_with_str2(ex, m, [s, p], fr, dest), 'strip_suffix'):
        return some(str_simplify(SymStr(s.chars, s.n - p.n)))
    return none()


@model(r'(?:core|std|alloc)::str::<impl str>::(trim_end_matches|trim_start_matches|trim_matches)::<char>')
def str_trim_matches_char(ex, m, a, fr, dest):
    s = as_symstr(deref(a[0]))
    c = a[1]
    kind = m.group(1)
    if kind in ('trim_start_matches', 'trim_matches'):
        while len(s.chars) > 0 and ex.branch(b_and(b_lt(0, s.n), eq(s.chars[0], c)), 'trim start'):
            s = s.slice_chars(1)
    if kind in ('trim_end_matches', 'trim_matches'):
        for _ in range(len(s.chars) + 1):
            if not ex.branch(b_and(b_lt(0, s.n), eq(s.elem(zint(s.n) - 1) if is_sym(s.n) else (s.chars[s.n - 1] if s.n > 0 else -1), c)), 'trim end'):
                break
            s = SymStr(s.chars, s.n - 1)
    return str_simplify(s)


@model(r'(?:core|std|alloc)::str::<impl str>::repeat')
def str_repeat(ex, m, a, fr, dest):
    s, n = deref(a[0]), a[1]
    if is_sym(n) or not isinstance(str_simplify(s), str):
        raise Unsupported('symbolic str::repeat')
    return str_simplify(s) * n


@model(r'(?:core|std)::num::<impl (\w+)>::(pow|div_ceil|is_power_of_two|abs_diff)|<(\w+) as Ord>::(clamp)')
def int_more_ops(ex, m, a, fr, dest):
    ty = m.group(1) or m.group(3)
    op = m.group(2) or m.group(4)
    if ty not in INT_BITS:
        return NotImplemented
    x = a[0]
    if op == 'pow':
        e = a[1]
        if is_sym(e) or e > 64:
            raise Unsupported('pow with symbolic exponent')
        v = 1
        for _ in range(e):
            v = v * x
        if is_sym(v):
            if not ex.branch(in_range(v, ty), 'pow overflow'):
                ex.env.setdefault('overflowed', []).append('pow in ' + (fr.name if fr else '?'))
                v = wrap(v, ty)
        elif not in_range(v, ty):
            ex.env.setdefault('overflowed', []).append('pow in ' + (fr.name if fr else '?'))
            v = wrap(v, ty)
        return v
    if op == 'div_ceil':
        d = a[1]
        if not ex.branch(b_not(eq(d, 0)), 'div_ceil divisor non-zero'):
            raise Panic('attempt to divide by zero', fr.name if fr else None)
        if is_sym(x) or is_sym(d):
            return (zint(x) + zint(d) - 1) / zint(d)
        return -(-x // d)
    if op == 'is_power_of_two':
        if is_sym(x):
            return b_or(*[eq(x, 1 << i) for i in range(INT_BITS[ty])])
        return x > 0 and (x & (x - 1)) == 0
    if op == 'abs_diff':
        y = a[1]
        return ite(b_lt(x, y), y - x, x - y) if (is_sym(x) or is_sym(y)) else abs(x - y)
    lo_, hi_ = a[1], a[2]
    return ite(b_lt(x, lo_), lo_, ite(b_lt(hi_, x), hi_, x)) if any(is_sym(v) for v in (x, lo_, hi_)) else max(lo_, min(hi_, x))


@model(r'(?:std::mem::|core::mem::)?swap::<.*>')
def mem_swap(ex, m, a, fr, dest):
    x, y = a[0], a[1]
    vx, vy = x.get(), y.get()
    x.set(vy)
    y.set(vx)
    return UNIT


@model(r'(?:std::string::)?String::with_capacity')
def string_with_capacity(ex, m, a, fr, dest):
    return ''


@model(r'(?:std::string::)?String::pop')
def string_pop(ex, m, a, fr, dest):
    r = a[0]
    s = as_symstr(r.get())
    if not ex.branch(b_lt(0, s.n), 'String::pop non-empty'):
        return none()
    last = s.elem(zint(s.n) - 1) if is_sym(s.n) else s.chars[s.n - 1]
    r.set(str_simplify(SymStr(s.chars, s.n - 1)))
    return some(last)


@model(r'(?:std::collections::)?(?:HashSet|BTreeSet)::<.*>::extend::<.*>|<(?:std::collections::)?(?:HashSet|BTreeSet)<.*> as Extend<.*>>::extend::<.*>')
def set_extend(ex, m, a, fr, dest):
    st = deref(a[0])
    for x in _gen(as_pyiter(ex, a[1])):
        st.insert(ex, deref(x) if isinstance(x, Ref) else x)
    return UNIT


@model(r'(?:std::collections::)?(?:HashSet|BTreeSet)::<.*>::is_subset')
def set_is_subset(ex, m, a, fr, dest):
    x, y = deref(a[0]), deref(a[1])
    return all(y.find(ex, v) is not None for v in list(x.items))


@model(r'(?:std::collections::)?(?:HashMap|BTreeMap)::<.*>::remove::<.*>')
def map_remove(ex, m, a, fr, dest):
    mp = deref(a[0])
    i = mp.find(ex, deref(a[1]))
    if i is None:
        return none()
    v = mp.items[i][1]
    del mp.items[i]
    return some(v)


@model(r'(?:std::collections::)?(?:HashMap|BTreeMap)::<.*>::get_mut::<.*>|(?:std::collections::)?BTreeMap::<.*>::get::<.*>')
def map_get_mut(ex, m, a, fr, dest):
    mp = deref(a[0])
    i = mp.find(ex, deref(a[1]))
    return none() if i is None else some(Ref(mp.items[i], 1, True))


@model(r'(?:std::collections::)?(?:HashMap|BTreeMap)::<.*>::(values|into_values)')
def map_values(ex, m, a, fr, dest):
    mp = deref(a[0])
    return PyIter((Ref(kv, 1) for kv in list(mp.items)), len(mp.items))


@model(r'(?:std::collections::)?BTreeMap::<.*>::(insert|contains_key)(?:::<.*>)?')
def btreemap_ops(ex, m, a, fr, dest):
    mp = deref(a[0])
    if m.group(1) == 'insert':
        return mp.insert(ex, a[1], a[2])
    return mp.find(ex, deref(a[1])) is not None


@model(r'(?:std::io::)?(?:stdio::)?(_print|_eprint)')
def io_print(ex, m, a, fr, dest):
    return UNIT
