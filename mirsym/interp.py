"""Bounded symbolic interpreter for rustc MIR text, deciding branches with z3.

One *run* executes a harness from the start along one path.  Whenever control flow
depends on a symbolic value the run asks the Explorer, which either replays a recorded
decision or checks with the solver which alternatives are feasible, follows the first
and queues the others.  So every path is executed from scratch (no state cloning) and
aliasing in the interpreted program is ordinary Python object sharing.
"""
import re
import sys
import time

import z3

from . import mirparse as P
from .srcinfo import SrcInfo, last_seg, STD_ENUMS
from .values import *  # noqa

sys.setrecursionlimit(20000)


class Stats:
    def __init__(self):
        self.paths = 0
        self.queries = 0
        self.sat = 0
        self.unsat = 0
        self.unknown = 0
        self.solver_s = 0.0
        self.steps = 0
        self.forks = 0
        self.nontrivial = 0
        self.functions = set()
        self.models_used = set()
        self.overflow_sites = set()

    def as_dict(self):
        return dict(paths=self.paths, queries=self.queries, sat=self.sat, unsat=self.unsat, unknown=self.unknown,
                    solver_s=round(self.solver_s, 3), steps=self.steps, forks=self.forks, nontrivial=self.nontrivial)


class Program:
    """Parsed MIR + source facts + call resolution tables (shared by all runs)."""

    def __init__(self, mir_text, repo=None):
        self.module = P.Module(mir_text)
        self.src = SrcInfo(repo) if repo else SrcInfo()
        self.fn_index = {}      # (type_last|None, trait_last|None, method) -> [full names]
        self.closure_index = {}  # closure/coroutine type text -> fn name
        self._compiled = {}
        self._arity = {}
        self._resolve_cache = {}
        self._build_index()

    def _build_index(self):
        for name, f in self.module.fns.items():
            if f.kind != 'fn':
                continue
            base = P.strip_generics(name)
            segs = _split_path_segments(name)
            method = segs[-1]
            if '{closure#' in method or method.startswith('{'):
                f.parse()
                if f.arg_tys:
                    key = _closure_key(f.arg_tys[0])
                    if key:
                        self.closure_index.setdefault(key, name)
                continue
            impl = self.src.impl_of(name) if '<impl at ' in name else None
            if impl is None and '<impl at ' in name and method == 'from' and segs[-2].startswith('<impl at'):
                # thiserror's #[from]: the span is the attribute; recover the impl from the signature
                f.parse()
                if len(f.arg_tys) == 1 and f.ret_ty:
                    impl = (last_seg(f.ret_ty), 'From', 'From<%s>' % f.arg_tys[0])
            if impl and segs[-2].startswith('<impl at'):
                ty, trait, trait_text = impl
                self.fn_index.setdefault((ty, trait, method), []).append((name, trait_text))
            else:
                self.fn_index.setdefault((None, None, method), []).append((name, None))

    def function(self, name):
        f = self.module.fns.get(name)
        if f is None:
            return None
        return f.parse()

    def compiled_block(self, f, bb):
        key = (f.name, bb)
        cb = self._compiled.get(key)
        if cb is None:
            stmts, term = f.blocks[bb]
            try:
                cs = [s for s in (P.parse_stmt(x) for x in stmts) if s is not None]
                ct = P.parse_terminator(term)
            except P.ParseError as e:
                raise Unsupported('MIR parse: %s in %s %s' % (e, f.name, bb))
            cb = (cs, ct)
            self._compiled[key] = cb
        return cb


def _split_path_segments(name):
    segs, cur, i, n = [], [], 0, len(name)
    while i < n:
        c = name[i]
        if c in '<{[(':
            j = P.scan_balanced(name, i)
            cur.append(name[i:j])
            i = j
            continue
        if name.startswith('::', i):
            segs.append(''.join(cur))
            cur = []
            i += 2
            continue
        cur.append(c)
        i += 1
    segs.append(''.join(cur))
    return segs


def _closure_key(arg_ty):
    t = arg_ty.strip()
    m = re.match(r'(?:std::pin::)?Pin<&mut (.*)>$', t)
    if m:
        t = m.group(1)
    t = re.sub(r"^&(?:'\w+ )?(?:mut )?", '', t)
    if t.startswith('{'):
        return _norm_closure(t)
    return None


def _norm_closure(t):
    t = t.strip()
    t = re.sub(r' \(#\d+\)\}$', '}', t)
    t = t.replace('{coroutine@', '{async block@').replace('{async closure@', '{async block@')
    return t


def _closure_arity(self, cname):
    """Number of captured fields the closure body reads (None if unknown)."""
    key = _norm_closure(cname)
    if key in self._arity:
        return self._arity[key]
    name = self.closure_index.get(key)
    n = None
    if name is not None:
        f = self.module.fns.get(name)
        if f is not None:
            idx = [int(x) for x in re.findall(r'\(\*_1\)\.(\d+): ', f.header + f.body_text)] + \
                  [int(x) for x in re.findall(r'\(_1\.(\d+): ', f.header + f.body_text)]
            n = max(idx) + 1 if idx else 0
    self._arity[key] = n
    return n


def _recover_captures(self, fn, cname, ops, need):
    """rustc's MIR printer lists one operand per captured *variable*; with disjoint field captures (`self.a`, `self.b`)
    the later operands are dropped from the text.  They are the otherwise unused temporaries assigned just before the
    aggregate; recover them in order, or give up (Unsupported -> inconclusive)."""
    fn.parse()
    printed = [o[1].local for o in ops if o[0] in ('move', 'copy') and not o[1].proj]
    if len(printed) != len(ops):
        raise Unsupported('closure %s: %d of %d captures printed, cannot recover' % (cname, len(ops), need))
    for bb, (stmts, term) in fn.blocks.items():
        for i, line in enumerate(stmts):
            if ('= ' + cname) in line:
                order = []
                for j in range(i - 1, max(-1, i - 60), -1):
                    m = re.match(r'_(\d+) = ', stmts[j])
                    if not m:
                        break
                    n = int(m.group(1))
                    uses = len(re.findall(r'\b_%d\b' % n, fn.body_text))
                    if n in printed:
                        order.append(n)
                        if all(x in order for x in printed):
                            break
                    elif uses == 2:       # its declaration and its assignment: feeds nothing that is printed
                        order.append(n)
                order.reverse()
                if len(order) == need:
                    return [P.parse_operand('move _%d' % n) for n in order]
                raise Unsupported('closure %s: cannot recover %d captures (found %r)' % (cname, need, order))
    raise Unsupported('closure %s: construction site not found' % cname)


Program_closure_patch = True


class Explorer:
    """Drives repeated runs of a harness over all feasible decision sequences."""

    def __init__(self, program, stats=None, max_paths=200000, step_budget=400000, solver_timeout_ms=60000,
                 deadline=None):
        self.prog = program
        self.stats = stats or Stats()
        self.work = [[]]
        self.max_paths = max_paths
        self.step_budget = step_budget
        self.solver = z3.Solver()
        self.solver.set('timeout', solver_timeout_ms)
        self.solver_timeout_ms = solver_timeout_ms
        self.deadline = deadline
        self.inconclusive = []
        self.frontier_depth = None     # split mode: stop runs at this many decisions and collect their prefixes
        self.frontier = []

    def run_all(self, harness, on_path=None, limit=None, shortest_first=False, until_work=None):
        """harness(ex) runs one path; returns when the worklist is empty (or after `limit` runs / once the
        worklist holds `until_work` prefixes, for seeding parallel workers)."""
        nruns = 0
        while self.work:
            if limit is not None and nruns >= limit:
                break
            if until_work is not None and len(self.work) >= until_work and nruns > 0:
                break
            nruns += 1
            if shortest_first:
                i = min(range(len(self.work)), key=lambda j: len(self.work[j]))
                self.work.append(self.work.pop(i))
            if self.stats.paths >= self.max_paths:
                self.inconclusive.append('path budget %d exhausted' % self.max_paths)
                break
            if self.deadline and time.time() > self.deadline:
                self.inconclusive.append('time budget exhausted with %d prefixes queued' % len(self.work))
                break
            prefix = self.work.pop()
            ex = Executor(self, prefix)
            self.solver.push()
            try:
                outcome = ('ok', harness(ex))
            except Panic as p:
                outcome = ('panic', p)
            except Infeasible:
                outcome = ('infeasible', None)
            except FrontierStop:
                outcome = ('infeasible', None)
            except Budget as b:
                outcome = ('budget', str(b))
                self.inconclusive.append('step budget: %s' % b)
            except Unsupported as u:
                import os
                if os.environ.get('VERIF_DEBUG') == '2':
                    raise
                outcome = ('unsupported', str(u))
                self.inconclusive.append('unsupported: %s' % u)
            except (AttributeError, TypeError, IndexError, KeyError, ValueError, AssertionError, z3.Z3Exception) as e:
                # a defect of the machinery itself: never a pass, never an alarm
                import os, traceback
                if os.environ.get('VERIF_DEBUG'):
                    raise
                tb = traceback.extract_tb(e.__traceback__)[-1]
                outcome = ('unsupported', 'internal %r at %s:%d' % (e, tb.filename.rsplit('/', 1)[-1], tb.lineno))
                self.inconclusive.append('internal error: %s' % outcome[1])
            if outcome[0] != 'infeasible':
                self.stats.paths += 1
                if ex.decisions and ex.pc:
                    # the path was selected among alternatives by the solver and carries a non-empty path condition
                    self.stats.nontrivial += 1
                if on_path:
                    on_path(ex, outcome)
            self.solver.pop()
            self.stats.steps += ex.steps

    # -- solver helpers -----------------------------------------------------
    def check(self, *extra):
        self.stats.queries += 1
        t = time.time()
        self.solver.push()
        if extra:
            self.solver.add(*extra)
        r = self.solver.check()
        if r == z3.unknown:
            # one retry with a five times longer limit (a loaded machine must not turn a decidable query into "unknown")
            self.solver.set('timeout', self.solver_timeout_ms * 5)
            r = self.solver.check()
            self.solver.set('timeout', self.solver_timeout_ms)
        m = self.solver.model() if r == z3.sat else None
        self.solver.pop()
        self.stats.solver_s += time.time() - t
        if r == z3.sat:
            self.stats.sat += 1
        elif r == z3.unsat:
            self.stats.unsat += 1
        else:
            self.stats.unknown += 1
        return r, m


class FrontierStop(Exception):
    pass


class Frame:
    __slots__ = ('fn', 'locals', 'name')

    def __init__(self, fn, nlocals):
        self.fn = fn
        self.name = fn.name
        self.locals = [UNINIT] * nlocals


class Executor:
    """One path through a harness."""

    def __init__(self, explorer, prefix):
        self.E = explorer
        self.prog = explorer.prog
        self.prefix = prefix
        self.pos = 0
        self.decisions = []
        self.pc = []
        self.steps = 0
        self.nsym = 0
        self.intercepts = []     # list of (regex, fn(ex, callee, args) -> value | NotImplemented)
        self.notes = []          # (kind, text) remarks: dev-profile overflow etc
        self.depth = 0
        self.trace_calls = False
        self.env = {}            # harness-owned per-path state
        self._isig = None
        self._isig_n = 0

    # ------------------------------------------------------------------ symbols and branching
    def fresh_int(self, label, lo=None, hi=None):
        self.nsym += 1
        v = z3.Int('%s!%d' % (label, self.nsym))
        if lo is not None:
            self.assume(v >= lo)
        if hi is not None:
            self.assume(v <= hi)
        return v

    def fresh_bool(self, label):
        self.nsym += 1
        return z3.Bool('%s!%d' % (label, self.nsym))

    def assume(self, cond):
        if cond is True:
            return
        if cond is False:
            raise Infeasible()
        self.pc.append(cond)
        self.E.solver.add(cond)

    def assume_checked(self, cond):
        """Assume cond and make sure the path is still feasible."""
        self.assume(cond)
        r, _ = self.E.check()
        if r == z3.unsat:
            raise Infeasible()
        if r != z3.sat:
            raise Unsupported('solver unknown on assumption')

    def choose(self, conds, what=''):
        """conds: list of mutually exclusive, jointly exhaustive conditions (bool / z3).  Returns the chosen index."""
        concrete_true = [i for i, c in enumerate(conds) if c is True]
        if concrete_true:
            return concrete_true[0]
        live = [i for i, c in enumerate(conds) if c is not False]
        if not live:
            raise Infeasible()
        if len(live) == 1 and False:
            return live[0]
        if self.pos < len(self.prefix):
            i = self.prefix[self.pos]
            self.pos += 1
            self.decisions.append(i)
            self.assume(conds[i])
            return i
        if self.E.frontier_depth is not None and len(self.decisions) >= self.E.frontier_depth:
            self.E.frontier.append(self.decisions[:])
            raise FrontierStop()
        feas = []
        for idx, i in enumerate(live):
            r, _ = self.E.check(conds[i])
            if r == z3.sat:
                feas.append(i)
            elif r != z3.unsat:
                raise Unsupported('solver unknown at branch %s' % what)
        if not feas:
            raise Infeasible()
        if len(feas) > 1:
            self.E.stats.forks += 1
            base = self.decisions[:]
            for j in reversed(feas[1:]):
                self.E.work.append(base + [j])
        i = feas[0]
        self.pos += 1
        self.decisions.append(i)
        self.assume(conds[i])
        return i

    def branch(self, cond, what=''):
        """Fork on a boolean; returns Python bool."""
        if isinstance(cond, bool):
            return cond
        cond = z3.simplify(cond)
        if z3.is_true(cond):
            return True
        if z3.is_false(cond):
            return False
        return self.choose([cond, z3.Not(cond)], what) == 0

    def concretize(self, v, lo, hi, what=''):
        """Fork so that integer v has a concrete value in [lo, hi]."""
        if not is_sym(v):
            return v
        v = z3.simplify(v)
        if z3.is_int_value(v):
            return v.as_long()
        vals = list(range(lo, hi + 1))
        i = self.choose([v == k for k in vals] + [z3.Or(v < lo, v > hi)], what)
        if i == len(vals):
            raise Unsupported('concretize out of bound: %s' % what)
        return vals[i]

    def check_holds(self, cond):
        """Is `cond` implied by the path condition?  Returns (True, None) or (False, model)."""
        if cond is True:
            return True, None
        if cond is False:
            r, m = self.E.check()
            return False, m
        r, m = self.E.check(z3.Not(cond))
        if r == z3.unsat:
            return True, None
        if r == z3.sat:
            return False, m
        raise Unsupported('solver unknown in check_holds')

    def note(self, kind, text):
        self.notes.append((kind, text))

    # ------------------------------------------------------------------ calls
    def call(self, name, args):
        """Call a crate function by (suffix of) its printed name."""
        full = self.find_fn(name)
        return self.call_fn(full, args)

    def find_fn(self, suffix):
        fns = self.prog.module.fns
        if suffix in fns:
            return suffix
        norm = lambda s: re.sub(r'<impl at [^>]*>', '<impl>', s)
        cands = [n for n in fns if n.endswith(suffix) and (len(n) == len(suffix) or suffix.startswith('::') or n[-len(suffix) - 1] == ':')]
        if len(cands) != 1:
            raise Unsupported('find_fn(%r): %d candidates %r' % (suffix, len(cands), cands[:4]))
        return cands[0]

    def call_fn(self, full, args):
        f = self.prog.function(full)
        if f is None:
            raise Unsupported('no MIR for ' + full)
        self.E.stats.functions.add(full)
        if self.trace_calls:
            print('  ' * self.depth + '> ' + full, file=sys.stderr)
        nlocals = max(f.local_tys) + 1 if f.local_tys else 1
        fr = Frame(f, nlocals)
        if len(args) != f.argc:
            # "rust-call" ABI: closures receive their argument tuple spread
            if f.argc == len(args) - 1 + (len(args[-1].fields) if isinstance(args[-1], Agg) else 0):
                args = list(args[:-1]) + list(args[-1].fields)
            else:
                raise Unsupported('arity mismatch calling %s: %d vs %d' % (full, len(args), f.argc))
        for i, a in enumerate(args):
            fr.locals[i + 1] = a
        self.depth += 1
        try:
            return self.run_frame(fr)
        finally:
            self.depth -= 1

    def run_frame(self, fr):
        f = fr.fn
        bb = 'bb0'
        prog = self.prog
        while True:
            self.steps += 1
            if self.steps > self.E.step_budget:
                raise Budget('%d steps in %s' % (self.steps, f.name))
            stmts, term = prog.compiled_block(f, bb)
            for st in stmts:
                k = st[0]
                if k == 'assign':
                    self.write_place(fr, st[1], self.rvalue(fr, st[2], st[1]))
                elif k == 'setdiscr':
                    c, key = self.resolve(fr, st[1])
                    v = c[key]
                    if not isinstance(v, Agg):
                        raise Unsupported('setdiscr on %r' % (v,))
                    v.variant = st[2]
                elif k == 'assume':
                    pass
            t = term[0]
            if t == 'goto':
                bb = term[1]
            elif t == 'return':
                return fr.locals[0]
            elif t == 'switch':
                v = self.operand(fr, term[1])
                bb = self.do_switch(v, term[2], f, bb)
            elif t == 'call':
                _, dest, callee, argops, ret = term
                args = [self.operand(fr, a) for a in argops]
                val = self.do_call(fr, callee, args, dest)
                if ret is None:
                    raise Panic('diverging call returned: ' + callee, f.name)
                self.write_place(fr, dest, val)
                bb = ret
            elif t == 'drop':
                self.do_drop(fr, term[1])
                bb = term[2]
            elif t == 'assert':
                _, neg, condop, msg, target = term
                c = self.operand(fr, condop)
                ok = b_not(c) if neg else c
                if 'overflow' in msg:
                    # dev profile panics, release profile wraps: explore the release behaviour, remember the site
                    if ok is not True:
                        if ok is False or self.branch(ok, 'overflow') is False:
                            self.note('overflow', '%s %s: %s' % (f.name, bb, msg))
                            self.E.stats.overflow_sites.add('%s %s' % (f.name, bb))
                            self.env.setdefault('overflowed', []).append('%s %s' % (f.name, bb))
                    bb = target
                else:
                    if self.branch(ok, 'assert') is False:
                        raise Panic('assertion failed: ' + msg, '%s %s' % (f.name, bb))
                    bb = target
            elif t == 'unreachable':
                raise Unsupported('reached `unreachable` in %s %s' % (f.name, bb))
            elif t == 'resume':
                raise Unsupported('resume in %s' % f.name)
            else:
                raise Unsupported('terminator ' + t)

    def do_switch(self, v, arms, f, bb):
        if isinstance(v, bool):
            v = 1 if v else 0
        if not is_sym(v):
            other = None
            for k, tgt in arms:
                if k is None:
                    other = tgt
                elif k == v or (v < 0 and k == v + 256) or (v < 0 and k == v + (1 << 64)):
                    return tgt
            if other is None:
                raise Unsupported('switch fell through in %s %s on %r' % (f.name, bb, v))
            return other
        conds = []
        if z3.is_bool(v):
            for k, tgt in arms:
                if k is None:
                    conds.append(None)
                else:
                    conds.append(v if k != 0 else z3.Not(v))
        else:
            for k, tgt in arms:
                if k is None:
                    conds.append(None)
                else:
                    # signed discriminants print as their unsigned byte (Ordering::Less = 255)
                    alts = [v == k]
                    if k >= 128 and k < 256:
                        alts.append(v == k - 256)
                    conds.append(z3.Or(*alts) if len(alts) > 1 else alts[0])
        if None in conds:
            others = [c for c in conds if c is not None]
            oc = z3.Not(z3.Or(*others)) if len(others) > 1 else (z3.Not(others[0]) if others else True)
            conds = [oc if c is None else c for c in conds]
        i = self.choose(conds, 'switch %s %s' % (f.name, bb))
        return arms[i][1]

    # ------------------------------------------------------------------ places
    def resolve(self, fr, place):
        c, k = fr.locals, place.local
        pend_variant = None
        for pr in place.proj:
            kind = pr[0]
            if kind == 'deref':
                v = c[k]
                if isinstance(v, Ref):
                    c, k = v.c, v.k
                elif isinstance(v, Agg) and v.ty in ('Box', 'Arc', 'Rc'):
                    c, k = v.fields, 0
                else:
                    # &str / &[u8] / model objects are their own referent
                    c, k = [v], 0
            elif kind == 'field':
                v = c[k]
                idx = pr[1]
                if isinstance(v, Agg):
                    if pend_variant is not None and v.extra is not None and 'vfields' in v.extra:
                        c, k = v.extra['vfields'], (pend_variant, idx)
                        if k not in c:
                            c[k] = UNINIT
                    else:
                        if idx >= len(v.fields):
                            v.fields.extend([UNINIT] * (idx + 1 - len(v.fields)))
                        c, k = v.fields, idx
                elif hasattr(v, 'mir_field'):
                    c, k = v.mir_field(idx, pr[2])
                elif v is UNINIT:
                    # field-wise initialisation of a fresh aggregate
                    nv = Agg(self_ty_of(fr, place), None, [])
                    c[k] = nv
                    nv.fields.extend([UNINIT] * (idx + 1))
                    c, k = nv.fields, idx
                else:
                    raise Unsupported('field .%d of %r (%s)' % (idx, v, place.text))
                pend_variant = None
            elif kind == 'downcast':
                v = c[k]
                name = pr[1]
                if name.startswith('variant#'):
                    pend_variant = int(name[8:])
                else:
                    pend_variant = None
            elif kind == 'index':
                v = c[k]
                i = fr.locals[pr[1]]
                if hasattr(v, 'byte_at'):
                    c, k = [v.byte_at(self, i, fr)], 0
                    continue
                items, lo, hi = seq_items(v)
                if is_sym(i):
                    i = self.concretize(i, 0, hi - lo - 1, 'index')
                if not (0 <= i < hi - lo):
                    raise Panic('index out of bounds', fr.name)
                c, k = items, lo + i
            elif kind == 'constidx':
                v = c[k]
                items, lo, hi = seq_items(v)
                i = pr[1]
                c, k = items, (hi - i if pr[3] else lo + i)
            else:
                raise Unsupported('projection %r' % (pr,))
        return c, k

    def read_place(self, fr, place):
        if not place.proj:
            return fr.locals[place.local]
        c, k = self.resolve(fr, place)
        try:
            return c[k]
        except (KeyError, IndexError):
            raise Unsupported('read of unset place %s in %s' % (place.text, fr.name))

    def write_place(self, fr, place, val):
        if not place.proj:
            fr.locals[place.local] = val
            return
        c, k = self.resolve(fr, place)
        c[k] = val

    # ------------------------------------------------------------------ operands / rvalues
    def operand(self, fr, op):
        k = op[0]
        if k == 'move':
            return self.read_place(fr, op[1])
        if k == 'copy':
            return copy_value(self.read_place(fr, op[1]))
        return self.constant(fr, op)

    def constant(self, fr, op):
        _, kind, val, ty = op
        if kind in ('int', 'bool', 'char', 'str', 'float'):
            return val
        if kind == 'unit':
            return UNIT
        if kind == 'bytes':
            return BytesLit(val)
        if kind == 'promoted':
            name = '%s::promoted[%d]' % (fr.name, val)
            if self.prog.function(name) is None:
                raise Unsupported('promoted? ' + name)
            return self.call_fn(name, [])
        if kind == 'alloc':
            st = self.prog.module.static_allocs.get(val)
            if st is not None:
                return self.static_ref(st)
            return Opaque('%s: %s' % (val, ty))
        if kind == 'named':
            return self.named_const(fr, val)
        raise Unsupported('const %r' % (op,))

    def static_ref(self, name):
        cache = self.env.setdefault('statics', {})
        if '__CALLSITE' in name or name.endswith('::META'):
            return Opaque('static ' + name)
        if name not in cache:
            full = self._lookup_item(name)
            if full is None:
                return Opaque('static ' + name)
            cache[name] = [Opaque('static %s (being initialised)' % name)]      # self-referential statics
            cache[name] = [self.call_fn(full, [])]
        return Ref(cache[name], 0)

    def _lookup_item(self, name):
        fns = self.prog.module.fns
        if name in fns:
            return name
        last = name.split('::')[-1]
        cands = [n for n in self.prog.module.by_last.get(last, []) if fns[n].kind != 'fn']
        if len(cands) == 1:
            return cands[0]
        c2 = [n for n in cands if n.endswith(name)]
        if len(c2) == 1:
            return c2[0]
        return None

    def named_const(self, fr, text):
        # unit / zero-sized values and function items
        t = text
        fns = self.prog.module.fns
        if t.startswith('ZeroSized: '):
            rest = t[11:]
            if rest.startswith('{closure@'):
                return Agg(rest, None, [], None, {'decl_ty': rest, 'parent': fr.name if fr else ''})
            return UNIT
        base = P.strip_generics(t)
        if base in ('std::marker::PhantomData', 'PhantomData') or base.endswith('PhantomData'):
            return UNIT
        full = self._lookup_item(base)
        if full is not None and fns[full].kind != 'fn':
            return self.call_fn(full, [])
        return FnItem(t)

    def rvalue(self, fr, rv, dest=None):
        k = rv[0]
        if k == 'use':
            return self.operand(fr, rv[1])
        if k == 'ref':
            c, key = self.resolve(fr, rv[2])
            v = c[key] if not isinstance(c, dict) or key in c else UNINIT
            # a reference to an unsized referent (str / slice / payload) is the referent itself
            if rv[2].proj and rv[2].proj[-1][0] == 'deref' and is_unsized_value(v):
                return v
            return Ref(c, key, rv[1] != 'shared')
        if k == 'agg':
            return self.aggregate(fr, rv, dest)
        if k == 'discriminant':
            v = self.read_place(fr, rv[1])
            return discriminant_of(v)
        if k == 'binop':
            a, b = self.operand(fr, rv[2]), self.operand(fr, rv[3])
            return self.binop(rv[1], a, b, self.operand_ty(fr, rv[2]), fr)
        if k == 'unop':
            a = self.operand(fr, rv[2])
            return self.unop(rv[1], a, self.operand_ty(fr, rv[2]))
        if k == 'cast':
            return self.cast(fr, self.operand(fr, rv[1]), rv[2], rv[3], self.operand_ty(fr, rv[1]))
        if k == 'tuple':
            if not rv[1]:
                return UNIT
            return Agg('tuple', None, [self.operand(fr, o) for o in rv[1]])
        if k == 'array':
            return VecV([self.operand(fr, o) for o in rv[1]], 'array')
        if k == 'repeat':
            n = rv[2].strip()
            m = re.match(r'(\d+)(?:_usize)?$', n) or re.match(r'const (\d+)_usize$', n)
            if not m:
                raise Unsupported('repeat count ' + n)
            v = self.operand(fr, rv[1])
            return VecV([copy_value(v) for _ in range(int(m.group(1)))], 'array')
        if k == 'closure':
            ty = self.place_ty(fr, dest) if dest is not None else None
            ops = rv[2]
            if not ('coroutine@' in rv[1] or 'async' in rv[1]):
                need = self.prog.closure_arity(rv[1])
                if need is not None and len(ops) < need:
                    ops = self.prog.recover_captures(fr.fn, rv[1], ops, need)
            a = Agg(rv[1], 0 if 'coroutine@' in rv[1] or 'async' in rv[1] else None,
                    [self.operand(fr, o) for o in ops])
            a.extra = {'decl_ty': ty, 'parent': fr.name}
            if a.variant == 0:
                a.extra['vfields'] = {}
            return a
        if k == 'len':
            v = self.read_place(fr, rv[1])
            items, lo, hi = seq_items(v)
            return hi - lo
        raise Unsupported('rvalue ' + k)

    def aggregate(self, fr, rv, dest):
        _, path, ops, names = rv
        vals = [self.operand(fr, o) for o in ops]
        dty = self.place_ty(fr, dest) if dest is not None else None
        key = (path, dty)
        ent = _AGGCACHE.get(key)
        if ent is None:
            ent = _AGGCACHE[key] = self._aggregate_kind(path, dty)
        ty, idx, vname = ent
        return Agg(ty, idx, vals, vname)

    def _aggregate_kind(self, path, dty):
        base = P.strip_generics(path)
        segs = base.split('::')
        # enum variant?
        if len(segs) >= 2:
            enum_path = '::'.join(segs[:-1])
            vname = segs[-1]
            for cand in ([dty] if dty else []) + [enum_path]:
                if cand is None:
                    continue
                if last_seg(cand) != last_seg(enum_path):
                    continue
                idx = self.prog.src.variant_index(cand, vname)
                if idx is not None:
                    return (P.strip_generics(cand) if cand else enum_path, idx, vname)
        if len(segs) == 1 and dty:
            # a variant printed without its enum path (e.g. `_0 = Equal;` after `use Ordering::*`): the destination type tells
            if last_seg(dty) == 'Ordering' and segs[0] in ('Less', 'Equal', 'Greater'):
                return ('Ordering', {'Less': -1, 'Equal': 0, 'Greater': 1}[segs[0]], None)
            idx = self.prog.src.variant_index(dty, segs[0])
            if idx is not None:
                return (P.strip_generics(dty), idx, segs[0])
        ty = P.strip_generics(dty) if dty and last_seg(dty) == segs[-1] else base
        return (ty, None, None)

    # ------------------------------------------------------------------ types of operands
    def place_ty(self, fr, place):
        if place is None:
            return None
        if not place.proj:
            return fr.fn.local_tys.get(place.local)
        for pr in reversed(place.proj):
            if pr[0] == 'field':
                return pr[2]
            if pr[0] == 'downcast':
                continue
            break
        return None

    def operand_ty(self, fr, op):
        if op[0] == 'const':
            return op[3]
        return self.place_ty(fr, op[1])

    # ------------------------------------------------------------------ arithmetic
    def binop(self, op, a, b, ty, fr):
        if isinstance(a, Agg) and not a.fields and isinstance(b, Agg) and op in ('Eq', 'Ne'):
            r = eq(a.variant, b.variant)
            return r if op == 'Eq' else b_not(r)
        if op in ('Eq', 'Ne'):
            r = eq(a, b)
            return r if op == 'Eq' else b_not(r)
        if isinstance(a, bool) or (is_sym(a) and z3.is_bool(a)):
            za, zb = a, b
            if op == 'BitAnd':
                return b_and(za, zb)
            if op == 'BitOr':
                return b_or(za, zb)
            if op == 'BitXor':
                return b_not(eq(za, zb))
            raise Unsupported('bool binop ' + op)
        sym = is_sym(a) or is_sym(b)
        if op in ('Lt', 'Le', 'Gt', 'Ge'):
            if not sym:
                return {'Lt': a < b, 'Le': a <= b, 'Gt': a > b, 'Ge': a >= b}[op]
            a, b = zint(a), zint(b)
            return {'Lt': a < b, 'Le': a <= b, 'Gt': a > b, 'Ge': a >= b}[op]
        if op == 'Cmp':
            return Agg('Ordering', ite(b_lt(a, b), -1, ite(b_lt(b, a), 1, 0)), [])
        if op in ('AddWithOverflow', 'SubWithOverflow', 'MulWithOverflow'):
            if op[0] == 'M' and is_sym(a) and is_sym(b):
                raise Unsupported('symbolic * symbolic')
            exact = a + b if op[0] == 'A' else a - b if op[0] == 'S' else a * b
            if ty not in INT_BITS:
                raise Unsupported('overflow op on type %r' % ty)
            if is_sym(exact):
                exact = z3.simplify(exact)
                if z3.is_int_value(exact):
                    exact = exact.as_long()
            # decide overflow now (fork), so that the common no-overflow world carries the exact term without `mod`
            if self.branch(in_range(exact, ty), 'overflow?'):
                return Agg('tuple', None, [exact, False])
            return Agg('tuple', None, [wrap(exact, ty), True])
        if op in ('Add', 'Sub', 'Mul', 'AddUnchecked', 'SubUnchecked', 'MulUnchecked'):
            if op.startswith('Mul') and is_sym(a) and is_sym(b):
                raise Unsupported('symbolic * symbolic')
            exact = a + b if op[0] == 'A' else a - b if op[0] == 'S' else a * b
            if is_sym(exact):
                exact = z3.simplify(exact)
                if z3.is_int_value(exact):
                    exact = exact.as_long()
            if ty in INT_BITS and (is_sym(exact) or not in_range(exact, ty)):
                if is_sym(exact) and self.branch(in_range(exact, ty), 'wraps?'):
                    return exact
                return wrap(exact, ty)
            return exact
        if op in ('Div', 'Rem'):
            if is_sym(b):
                raise Unsupported('symbolic divisor')
            if b == 0:
                raise Panic('division by zero', fr.name)
            if not sym:
                q = abs(a) // abs(b) * (1 if (a >= 0) == (b >= 0) else -1)
                return q if op == 'Div' else a - q * b
            if ty and ty[0] == 'i':
                # truncating division on possibly negative symbolic value
                q = z3.If(a >= 0, a / b, -((-a) / b)) if b > 0 else None
                if q is None:
                    raise Unsupported('signed division by negative constant')
                return q if op == 'Div' else a - q * b
            return a / b if op == 'Div' else a % b
        if op in ('BitAnd', 'BitOr', 'BitXor', 'Shl', 'Shr', 'ShlUnchecked', 'ShrUnchecked'):
            if not sym:
                if op == 'BitAnd':
                    return a & b
                if op == 'BitOr':
                    return a | b
                if op == 'BitXor':
                    return a ^ b
                if op.startswith('Shl'):
                    return wrap(a << b, ty)
                return a >> b
            bits = INT_BITS.get(ty)
            if bits is None:
                raise Unsupported('bit op on %r' % ty)
            if op == 'BitAnd' and not is_sym(b) and b >= 0 and (b & (b + 1)) == 0 and (ty[0] == 'u'):
                return a % (b + 1)           # mask with 2^k-1
            ba, bb_ = z3.Int2BV(zint(a), bits), z3.Int2BV(zint(b), bits)
            r = {'BitAnd': ba & bb_, 'BitOr': ba | bb_, 'BitXor': ba ^ bb_}.get(op)
            if r is None:
                if op.startswith('Shl'):
                    r = ba << bb_
                else:
                    r = (ba >> bb_) if ty[0] == 'i' else z3.LShR(ba, bb_)
            return z3.BV2Int(r, ty[0] == 'i')
        raise Unsupported('binop ' + op)

    def unop(self, op, a, ty):
        if op == 'Not':
            if isinstance(a, bool) or (is_sym(a) and z3.is_bool(a)):
                return b_not(a)
            if ty in INT_BITS:
                lo, hi = int_range(ty)
                return (hi + lo) - a if ty[0] == 'u' else -a - 1
            raise Unsupported('Not on %r' % ty)
        if op == 'Neg':
            return wrap(-a, ty) if ty in INT_BITS else -a
        if op == 'PtrMetadata':
            if hasattr(a, 'byte_len'):
                return a.byte_len()
            if isinstance(a, (str, SymStr)):
                return as_symstr(a).blen() if isinstance(a, SymStr) else len(a.encode('utf-8'))
            items, lo, hi = seq_items(a)
            return hi - lo
        raise Unsupported('unop ' + op)

    def cast(self, fr, v, ty, kind, from_ty):
        ty = ty.strip()
        if kind.startswith('PointerCoercion') or kind in ('PtrToPtr', 'Transmute', 'PointerExposeProvenance',
                                                           'PointerWithExposedProvenance', 'FnPtrToPtr'):
            if kind.startswith('PointerCoercion(Unsize') and isinstance(v, Ref):
                inner = v.get()
                if isinstance(inner, VecV) and inner.ty == 'array':
                    return Slice(inner.items, 0, len(inner.items))
                if isinstance(inner, BytesLit):
                    return inner
            return v
        if kind == 'IntToInt':
            if isinstance(v, bool):
                v = 1 if v else 0
            elif is_sym(v) and z3.is_bool(v):
                v = z3.If(v, 1, 0)
            if isinstance(v, Agg) and not v.fields:
                v = v.variant
            return wrap(v, ty)
        if kind in ('IntToFloat', 'FloatToInt', 'FloatToFloat'):
            if is_sym(v):
                raise Unsupported('float cast of symbolic value')
            return float(v) if kind != 'FloatToInt' else int(v)
        raise Unsupported('cast kind ' + kind)

    # ------------------------------------------------------------------ drop
    def do_drop(self, fr, place):
        try:
            v = self.read_place(fr, place)
        except Unsupported:
            return
        self.drop_value(v)

    def drop_value(self, v):
        if isinstance(v, Agg) and v.ty is not None:
            name = last_seg(v.ty) if not v.ty.startswith('{') else None
            if name and name in self.prog.src.drop_types:
                cands = self.prog.fn_index.get((name, 'Drop', 'drop'), [])
                if len(cands) == 1:
                    self.call_fn(cands[0][0], [Ref([v], 0, True)])

    # ------------------------------------------------------------------ call dispatch
    def do_call(self, fr, callee, args, dest):
        E = self.E
        c = _CLEAN.get(callee)
        if c is None:
            c = _CLEAN[callee] = clean_callee(callee)
        if self.trace_calls:
            print('  ' * self.depth + '. ' + c, file=sys.stderr)
        if self.intercepts:
            sig = self._isig
            if sig is None or self._isig_n != len(self.intercepts):
                sig = self._isig = hash(tuple(rx.pattern for rx, _ in self.intercepts))
                self._isig_n = len(self.intercepts)
            key = (sig, c)
            idxs = _ICACHE.get(key)
            if idxs is None:
                idxs = _ICACHE[key] = [i for i, (rx, _) in enumerate(self.intercepts) if rx.match(c)]
            for i in idxs:
                rx, fn = self.intercepts[i]
                r = fn(self, c, args)
                if r is not NotImplemented:
                    E.stats.models_used.add('intercept:' + rx.pattern)
                    return r
        tag = type_tag(args[0]) if args else None
        rkey = (c, tag, fr.name if fr is not None and '::' not in c and not c.startswith('<') else None)
        ent = _RCACHE.get(rkey)
        if ent is None:
            try:
                ent = ('fn', self.resolve_callee(c, args, fr))
            except Unsupported as u:
                ent = ('unsupported', str(u))
            _RCACHE[rkey] = ent
        if ent[0] == 'unsupported':
            raise Unsupported(ent[1])
        target = ent[1]
        if target is not None:
            if c.startswith('<&'):
                # a std blanket impl for references (`impl PartialEq<&B> for &A`, PartialOrd, Ord, Display ...) forwarding to the
                # crate's impl for the referent: its `&self` arguments are references to references - strip one level
                f = self.prog.module.fns.get(target)
                if f is not None:
                    f.parse()
                    args = [a.get() if isinstance(a, Ref) and isinstance(a.get(), Ref) and i < len(f.arg_tys) and
                            f.arg_tys[i].startswith('&') and not f.arg_tys[i].startswith('&&') else a for i, a in enumerate(args)]
            return self.call_fn(target, args)
        from . import models
        r = models.dispatch(self, c, args, fr, dest)
        if r is NotImplemented:
            raise Unsupported('no model for callee %s (in %s)' % (c, fr.name if fr else '<model>'))
        return r

    def resolve_callee(self, c, args, fr):
        """Map a printed callee to a crate function name, or None if it is not a crate function."""
        prog = self.prog
        m = re.match(r'<(.*) as ([^>]*?(?:<.*>)?)>::(\w+)$', c)
        if c.startswith('<') and not c.startswith('<impl'):
            # <T as Trait>::method  /  <T>::method
            end = P.scan_balanced(c, 0)
            inner, rest = c[1:end - 1], c[end:]
            if not rest.startswith('::'):
                return None
            method = P.strip_generics(rest[2:])
            parts = P.split_top(inner.replace(' as ', '\x00'), '\x00') if ' as ' in inner else [inner]
            if len(parts) == 2:
                tytxt, trtxt = parts[0].strip(), parts[1].strip()
            else:
                tytxt, trtxt = inner.strip(), None
            ty = last_seg(tytxt)
            if re.match(r"^(&(mut )?)*(std|core|alloc)::", tytxt):
                ty = '<std>' + ty
            trait = last_seg(trtxt) if trtxt else None
            if tytxt.startswith('{closure@') or tytxt.startswith('{async') or tytxt.startswith('{coroutine'):
                if trait in ('Fn', 'FnMut', 'FnOnce'):
                    return self.closure_fn(args[0])
                return None
            cands = prog.fn_index.get((ty, trait, method))
            if cands is None and args:
                # generic parameter or dyn: dispatch on the runtime type of the receiver
                rt = type_tag(args[0])
                if rt is not None:
                    cands = prog.fn_index.get((rt, trait, method))
                    if cands is None and trait is None:
                        cands = prog.fn_index.get((rt, None, method))
            if not cands:
                return None
            # match the trait's generic arguments (PartialEq<&str> vs PartialEq<Apath>; From<X>)
            want = re.sub(r"'\w+ ?", '', trtxt or '')
            wl = _generic_lasts(want)
            sty = cands_ty if False else None
            def compatible(tt, self_ty):
                gi = _generic_lasts(tt) if tt else ()
                gi = tuple(self_ty if g == 'Self' else g for g in gi)
                if gi == wl:
                    return _generic_paths_compatible(tt, want)
                if wl == () and gi in ((), (self_ty,)):
                    return True
                if gi == () and wl == (self_ty,):
                    return True
                return False
            self_ty = ty if prog.fn_index.get((ty, trait, method)) is cands else type_tag(args[0])
            cands = [(n, tt) for n, tt in cands if trait is None or compatible(tt, self_ty)]
            if not cands:
                return None
            if len(cands) == 1:
                return cands[0][0]
            # same-named types in different modules: the impl lives in the module of the type
            tmod = '::'.join(P.strip_generics(re.sub(r"^&(?:'\w+ )?(?:mut )?", '', tytxt)).split('::')[:-1])
            if tmod:
                inmod = [(n, tt) for n, tt in cands if n.startswith(tmod + '::')]
                if len(inmod) == 1:
                    return inmod[0][0]
                if inmod:
                    cands = inmod
            best = [n for n, tt in cands if tt and _generic_lasts(tt) == wl]
            if len(best) == 1:
                return best[0]
            if args:
                rt = type_tag(args[0])
                best = [n for n, tt in cands if tt and rt and rt in tt]
                if len(best) == 1:
                    return best[0]
            raise Unsupported('ambiguous impl for %s: %r' % (c, [n for n, _ in cands]))
        base = P.strip_generics(c)
        segs = base.split('::')
        method = segs[-1]
        if len(segs) >= 2 and segs[0] not in ('std', 'core', 'alloc'):
            ty = segs[-2]
            cands = prog.fn_index.get((ty, None, method))
            if cands:
                if len(cands) == 1:
                    return cands[0][0]
                pre = '::'.join(segs[:-2])
                best = [n for n, _ in cands if n.startswith(pre)] if pre else []
                if len(best) == 1:
                    return best[0]
                if args:
                    # inherent methods of same-named types: pick by receiver
                    pass
                raise Unsupported('ambiguous inherent %s: %r' % (c, [n for n, _ in cands]))
        cands = prog.fn_index.get((None, None, method)) if segs[0] not in ('std', 'core', 'alloc') else None
        if cands:
            if len(segs) == 1:
                exact = [n for n, _ in cands if n == method or n.endswith('::' + method)]
                # prefer the one in the caller's module
                mod = fr.name.split('::<impl')[0].rsplit('::', 1)[0] if fr is not None else ''
                same = [n for n in exact if n == method or n.startswith(fr.name.split('::')[0] + '::')] if fr else exact
                if len(exact) == 1:
                    return exact[0]
                if len(same) == 1:
                    return same[0]
                if exact:
                    raise Unsupported('ambiguous free fn %s: %r' % (c, exact))
                return None
            suffix = base
            best = [n for n, _ in cands if n == suffix or n.endswith('::' + suffix)]
            if len(best) == 1:
                return best[0]
            # the printed path may be trimmed differently: match on module-less tail
            tail = '::'.join(segs[-2:])
            best = [n for n, _ in cands if n.endswith(tail)]
            if len(best) == 1:
                return best[0]
        return None

    def closure_fn(self, clo):
        v = clo.get() if isinstance(clo, Ref) else clo
        if isinstance(v, Agg) and v.ty.startswith('{'):
            key = _norm_closure(v.ty)
            name = self.prog.closure_index.get(key)
            if name is None and v.extra and v.extra.get('decl_ty'):
                name = self.prog.closure_index.get(_norm_closure(v.extra['decl_ty']))
            if name is None:
                raise Unsupported('closure body not found for ' + v.ty)
            return name
        if isinstance(v, FnItem):
            return None
        raise Unsupported('call of non-closure %r' % (v,))

    def call_closure(self, clo, args):
        """Call a closure / fn item value with positional args (used by models)."""
        v = clo.get() if isinstance(clo, Ref) else clo
        if isinstance(v, FnItem):
            return self.do_call(None, v.name, list(args), None)
        if callable(v):
            return v(*args)
        name = self.closure_fn(v)
        f = self.prog.function(name)
        self_arg = clo
        if f.arg_tys and f.arg_tys[0].lstrip().startswith('&'):
            if not isinstance(clo, Ref):
                self_arg = Ref([v], 0, True)
        else:
            self_arg = v
        return self.call_fn(name, [self_arg] + list(args))

    def poll_coroutine(self, co, cx=None):
        """Run an async body to completion (the modelled environment never returns Pending)."""
        key = None
        if co.extra and co.extra.get('decl_ty'):
            key = _norm_closure(co.extra['decl_ty'])
        name = self.prog.closure_index.get(key) if key else None
        if name is None:
            name = self.prog.closure_index.get(_norm_closure(co.ty))
        if name is None and co.extra:
            cand = co.extra['parent'] + '::{closure#0}'
            if cand in self.prog.module.fns:
                name = cand
        if name is None:
            raise Unsupported('coroutine body not found for %s / %s' % (co.ty, key))
        pin = Agg('Pin', None, [Ref([co], 0, True)])
        return self.call_fn(name, [pin, cx if cx is not None else Opaque('Context')])


_CLEAN = {}
_ICACHE = {}
_RCACHE = {}
_AGGCACHE = {}


class BytesLit:
    """A byte-string literal (&[u8; N])."""
    __slots__ = ('data',)

    def __init__(self, data):
        self.data = data

    def __repr__(self):
        return 'b%r' % (self.data,)


def _generic_lasts(t):
    m = re.search(r'<(.*)>', t)
    if not m:
        return ()
    return tuple(last_seg(x) for x in P.split_top(m.group(1)))


def _generic_paths_compatible(a, b):
    """Same-named generic arguments must not come from visibly different modules (jsonio::Error vs transport::error::Error)."""
    ma, mb = re.search(r'<(.*)>', a or ''), re.search(r'<(.*)>', b or '')
    if not ma or not mb:
        return True
    xs, ys = P.split_top(ma.group(1)), P.split_top(mb.group(1))
    for x, y in zip(xs, ys):
        x = P.strip_generics(re.sub(r"^&(?:'\w+ )?(?:mut )?", '', x.strip()))
        y = P.strip_generics(re.sub(r"^&(?:'\w+ )?(?:mut )?", '', y.strip()))
        sx, sy = x.split('::'), y.split('::')
        if len(sx) > 1 and len(sy) > 1:
            n = min(len(sx), len(sy))
            if sx[-n:] != sy[-n:]:
                # allow re-export style differences only when one path is a strict suffix of the other
                if not (sx[-1] == sy[-1] and (sx[0] == sy[0] or sx[-2] == sy[-2])):
                    return False
    return True


def clean_callee(c):
    c = re.sub(r"::<'\w+>", '', c)           # turbofish with only a lifetime
    c = re.sub(r"'(?:\w+) ", '', c)          # "'a " lifetimes in refs
    c = re.sub(r"<'\w+>", '', c)             # lone lifetime generics
    c = re.sub(r"'\w+, ", '', c)
    return c


def self_ty_of(fr, place):
    return fr.fn.local_tys.get(place.local, '?')


def is_unsized_value(v):
    return isinstance(v, (str, SymStr, Slice, BytesLit)) or getattr(v, 'unsized', False)


def seq_items(v):
    if isinstance(v, Ref):
        v = v.get()
    if isinstance(v, VecV):
        return v.items, 0, len(v.items)
    if isinstance(v, Slice):
        return v.items, v.lo, v.hi
    if isinstance(v, BytesLit):
        return list(v.data), 0, len(v.data)
    if type(v).__name__ == 'StrBytes':
        # the bytes of a string whose characters are all known: an ordinary byte sequence
        from .models import str_simplify
        cs = str_simplify(v.s)
        if isinstance(cs, str):
            data = list(cs.encode('utf-8'))
            return data, 0, len(data)
    raise Unsupported('not a sequence: %r' % (v,))


def discriminant_of(v):
    if isinstance(v, Agg):
        if v.variant is None:
            raise Unsupported('discriminant of struct %r' % (v,))
        return v.variant
    if hasattr(v, 'discriminant'):
        return v.discriminant()
    raise Unsupported('discriminant of %r' % (v,))


def copy_value(v):
    if isinstance(v, Agg):
        a = Agg(v.ty, v.variant, [copy_value(x) for x in v.fields], v.vname, v.extra)
        return a
    if isinstance(v, VecV) and v.ty == 'array':
        return VecV([copy_value(x) for x in v.items], 'array')
    return v


def type_tag(v):
    """Last path segment of the runtime type of v (after following references)."""
    seen = 0
    while isinstance(v, Ref) and seen < 8:
        v = v.get()
        seen += 1
    if isinstance(v, Agg):
        if v.ty and not v.ty.startswith('{') and v.ty not in ('tuple',):
            t = last_seg(v.ty)
            if t in ('Arc', 'Box', 'Rc') and v.fields:
                return type_tag(v.fields[0])
            return t
        return None
    if isinstance(v, Model):
        return v.ty
    if isinstance(v, (str, SymStr)):
        return 'str'
    if isinstance(v, VecV):
        return 'Vec'
    return None


# ---------------------------------------------------------------------------- parallel exploration
_PAR = {}


def _par_worker(args):
    key, prefixes, kw, limit = args
    make = _PAR[key]
    harness, on_path, res = make()
    E = Explorer(_PAR[key + ':prog'], Stats(), **kw)
    E.work = [list(p) for p in prefixes]
    try:
        E.run_all(harness, on_path, limit=limit)
    except Exception as e:
        E.inconclusive.append('worker failure: %r' % (e,))
        E.work = []
    return res, E.stats.as_dict(), E.stats.functions, E.stats.models_used, E.inconclusive[:5], E.work


def parallel_explore(prog, make, depth=6, procs=16, deadline=None, **kw):
    """make() -> (harness, on_path, res) with res a picklable dict of lists/ints that on_path fills.
    The parent seeds a worklist, then a process pool explores prefixes in slices of at most `slice_runs` runs and
    hands unfinished prefixes back (dynamic load balancing).  Returns (merged res, stats, functions, models, inconclusive)."""
    import multiprocessing as mp
    import collections
    key = 'k%d' % len(_PAR)
    _PAR[key] = make
    _PAR[key + ':prog'] = prog
    harness, on_path, res = make()
    E0 = Explorer(prog, Stats(), deadline=deadline, **kw)
    E0.run_all(harness, on_path, limit=procs * 2, shortest_first=True, until_work=procs * 4)
    stats = E0.stats.as_dict()
    functions, models_used, inconclusive = set(E0.stats.functions), set(E0.stats.models_used), list(E0.inconclusive)
    kw2 = dict(kw)
    kw2['deadline'] = deadline
    slice_runs = 12

    def merge(r, st, fns, mods, inc):
        for k, v in r.items():
            if isinstance(v, list):
                res.setdefault(k, []).extend(v)
            elif isinstance(v, (int, float)):
                res[k] = res.get(k, 0) + v
        for k, v in st.items():
            stats[k] = stats.get(k, 0) + v
        functions.update(fns)
        models_used.update(mods)
        inconclusive.extend(inc)

    pending = collections.deque(sorted(E0.work, key=len))
    if pending and not inconclusive:
        ctx = mp.get_context('fork')
        with ctx.Pool(procs) as pool:
            inflight = []
            while pending or inflight:
                while pending and len(inflight) < procs * 2:
                    # several small items per task when there are many
                    n = max(1, min(4, len(pending) // (procs * 2)))
                    batch = [pending.popleft() for _ in range(min(n, len(pending)))]
                    inflight.append(pool.apply_async(_par_worker, ((key, batch, kw2, slice_runs),)))
                done = [x for x in inflight if x.ready()]
                if not done:
                    inflight[0].wait(0.05)
                    continue
                for x in done:
                    inflight.remove(x)
                    r, st, fns, mods, inc, left = x.get()
                    merge(r, st, fns, mods, inc)
                    pending.extend(left)
                if inconclusive and any('budget' in i_ for i_ in inconclusive):
                    break
    return res, stats, functions, models_used, inconclusive


Program.closure_arity = _closure_arity
Program.recover_captures = _recover_captures
