"""C03 / C04 / C07 / C13 / C14 (and the content kernel of C01): cases of the backup-writer harness, classification of
problems into role-keyed violations, native replay through the verif_hooks interceptor."""
import json
import re
import time

from . import runner
from .interp import parallel_explore
from .harness import backup as B


def scenario_files(kinds, classes, model, label='t', paths=None, sizes=None, sym_meta=False):
    files = []
    for i, k in enumerate(kinds):
        p = (paths or B.PATHS)[i]
        mt = [(1000 if label == 't' else 2000) + i, 500 * i]
        if sym_meta:
            # solver-chosen modification times (harness/backup.py sym_time)
            mt = [model.get('%smt%d_s' % (label, i), mt[0]), model.get('%smt%d_n' % (label, i), mt[1])]
        if k == 'F':
            # equal classes share one symbolic size (named after the first file of the class)
            first = classes.index(classes[i])
            size = sizes[first] if sizes else model.get('%ssize%d' % (label, first), 0)
            # (the model's files are owned by a named user and a group without a name)
            files.append({'path': p, 'kind': 'File', 'content_len': size, 'content_class': classes[i], 'mtime': mt,
                          'mode': model.get('%smode%d' % (label, i), 0o644) | 0o400, 'group_unnamed': True})
        elif k == 'D':
            files.append({'path': p, 'kind': 'Dir', 'mtime': mt, 'mode': model.get('%smode%d' % (label, i), 0o755) | 0o700})
        elif k == 'S':
            files.append({'path': p, 'kind': 'Symlink', 'target': 'tgt%d' % i, 'mtime': mt})
    return files


def scenario_from(bad):
    case, model = bad['case'], bad.get('model') or {}
    fo = case.get('fixed_opts')
    sc = {'kind': 'backup', 'files': scenario_files(case['kinds'], case['classes'], model, paths=case.get('paths'), sizes=case.get('sizes'),
                                                   sym_meta=case.get('sym_meta', False)),
          'options': {'max_entries_per_hunk': fo[2] if fo else model.get('oH', 1000), 'max_block_size': fo[0] if fo else model.get('oB', 1 << 20),
                      'small_file_cap': fo[1] if fo else model.get('oC', 1 << 20)},
          'follow_up': any('follow-up' in p for p in bad.get('problems', [])) or bool(bad.get('fired') and bad['fired'][3] in ('stop', 'empty_stop')),
          'mirsym': {k: v for k, v in bad.items() if k in ('problems', 'msg', 'where', 'result')}}
    if case.get('validate_after'):
        sc['validate_after'] = True
    if case.get('shrink') or case.get('read_errors'):
        fidx = [j for j, kk in enumerate(case['kinds']) if kk == 'F']
        if len(fidx) >= 2:
            pths = case.get('paths') or B.PATHS
            last, prev = fidx[-1], fidx[-2]
            sc['source_event'] = {'when_reported': pths[prev], 'path': pths[last],
                                  'what': 'truncate' if case.get('shrink') else 'make_dir', 'to': max(0, model.get('tactual%d' % last, 0))}
    if case.get('prior') == 'same':
        sc['prior'] = True
    elif case.get('prior') in ('built', 'changed'):
        sc['prior_files'] = scenario_files(case['prior_kinds'], case['prior_classes'], model, 'p')
        if case.get('headless_above'):
            sc['headless_above'] = True
    if bad.get('fired'):
        idx, verb, path, what = bad['fired']
        pat = path
        if path.startswith('d/'):
            pat = 'd/*'
        occ = 0
        for (i, v, p) in bad.get('log', []):
            if i >= idx:
                break
            if i < bad.get('first_step', 0):
                continue        # operations of the prior backup: the native hook is armed after it
            if v == verb and (p == path or (pat.endswith('*') and p.startswith('d/'))):
                occ += 1
        # occurrences are counted from the moment the hook is armed (the backup under test), not the prior backup
        sc['fired'] = [idx, verb, pat, what, occ]
        sc['fired_count_from'] = 'backup under test'
    return sc


def classify(problem):
    p = problem
    if 'panics' in p or p.startswith('panic'):
        return 'panic'
    if 'refers to block' in p or 'runs past the end' in p or 'restores to' in p or 'has no content' in p:
        return 'wrong-or-dangling-content'
    if 'existed before the backup and' in p or 'existing file overwritten' in p or 'existed and' in p:
        return 'existing-file-changed'
    if 'written again' in p:
        return 'path-written-twice'
    if 'validate of a healthy archive' in p or 'validate panics' in p:
        return 'validate-false-alarm'
    if 'were reused' in p:
        return 'resume-does-not-reuse-entries'
    if 'unchanged tree wrote block' in p or 'different addresses than in the previous' in p or 'work stored again' in p:
        return 'unchanged-tree-stored-again'
    if 'reported success but' in p or ('lists' in p and 'the source has' in p):
        return 'false-success'
    if 'backup reports errors' in p or 'failed without any injected fault' in p:
        return 'fault-free-backup-errors'
    if 'follow-up backup' in p:
        return 'follow-up-backup-fails'
    if 'for the version list' in p or 'is listed as' in p:
        return 'version-list'
    if 'band selection LatestClosed' in p:
        return 'latest-complete-selection'
    if 'reports errors' in p and 'listing band' in p:
        return 'interrupted-version-listing-errors'
    if 'stitching rule' in p or 'listing band' in p:
        return 'interrupted-version-listing'
    if 'mtime recorded' in p or 'mode recorded' in p or 'owner recorded' in p or 'symlink target' in p:
        return 'metadata-recorded-wrong'
    if 'hunk numbers' in p or 'is empty' in p or 'strictly increasing' in p or 'tail says' in p or 'stored under' in p \
            or 'does not hold the content' in p or 'carries addresses' in p or 'address lengths sum' in p \
            or 'target presence' in p or 'not decodable' in p or 'no BANDHEAD' in p or 'not in the source' in p or 'recorded as' in p:
        return 'format'
    return 'other'


def reproduced(kind, out, bad):
    if out.get('panic'):
        return kind == 'panic' or True
    if kind == 'panic':
        return False
    versions = out.get('versions') or []
    newest = versions[-1] if versions else {}
    if kind == 'wrong-or-dangling-content':
        return any(v.get('wrong_content') or v.get('restore_errors') for v in versions)
    if kind == 'false-success':
        return bool(out.get('backup_ok') and out.get('stat_errors') == 0 and not out.get('backup_errors')
                    and (newest.get('differences') or newest.get('restore_errors') or not newest.get('restore_ok')
                         or newest.get('closed') is False))
    if kind == 'fault-free-backup-errors':
        return bool((not out.get('backup_ok')) or out.get('stat_errors') or out.get('backup_errors'))
    if kind in ('existing-file-changed', 'path-written-twice'):
        if any('removed by the backup' in p for p in bad.get('problems', [])):
            # natively: some backup (the run under test or the follow-up) removes a file
            return any(o[0] in ('remove_file', 'remove_dir_all') for o in out.get('ops', []))
        return any(o[0] == 'rewrite' for o in out.get('ops', []))
    if kind == 'validate-false-alarm':
        return bool(out.get('validate_errors')) or out.get('validate_ok') is False
    if kind == 'resume-does-not-reuse-entries':
        # "N unchanged files are recorded in the (stitched) previous version but only K were reused"
        m = re.search(r'(\d+) unchanged files are recorded', ' '.join(bad.get('problems', [])))
        return bool(m) and out.get('follow_up_unmodified') is not None and out['follow_up_unmodified'] < int(m.group(1))
    if kind == 'unchanged-tree-stored-again':
        # a data block written by the run under test (or its follow-up) although the tree is unchanged
        return any(o[0] == 'write' and o[1].startswith('d/') for o in out.get('ops', [])) or bool(out.get('follow_up_written_blocks'))
    if kind == 'follow-up-backup-fails':
        return not out.get('follow_up_ok', True) or bool(out.get('follow_up_errors')) or bool(out.get('follow_up_mismatches')) \
            or not out.get('follow_up_restore_ok', True)
    if kind == 'version-list':
        # natively: Band::open/get_info fails for a band with a head, or says closed for a band without a complete tail
        return any((v.get('info') or {}).get('ok') is False and 'open_err' not in (v.get('info') or {}) for v in versions) or \
            any((v.get('info') or {}).get('ok') and bool(v['info'].get('is_closed')) != bool(v.get('closed')) for v in versions)
    if kind == 'latest-complete-selection':
        # natively: LatestClosed fails (or names another band) although a band with a tail exists
        closed = [v['band'] for v in versions if v.get('closed')]
        lc = str(out.get('latest_closed', ''))
        return bool(closed) and lc != closed[-1] if closed else lc.startswith('b')
    if kind == 'interrupted-version-listing-errors':
        return any(v.get('restore_errors') for v in (out.get('versions') or []))
    if kind == 'interrupted-version-listing':
        return any(v.get('differences') or len(set(v.get('listing') or [])) != len(v.get('listing') or []) for v in versions)
    if kind == 'format':
        # decided by an independent native reader of the archive directory (replay/src/formatscan.rs) or by what a restore shows
        return bool(out.get('format_problems')) or any(v.get('differences') or v.get('restore_errors') for v in versions)
    if kind == 'metadata-recorded-wrong':
        # what a restore shows, or what an independent decoding of the newest band's index says about the recorded mtimes
        want = {f['path']: f.get('mtime') for f in scenario_from(bad).get('files', []) if f.get('mtime')}
        rec_wrong = any(r[0] in want and [r[1], r[2]] != list(want[r[0]]) for r in out.get('recorded_mtimes') or [])
        if any('owner recorded' in p for p in bad.get('problems', [])):
            # the independent decoding shows a file whose user has a name recorded without it
            half = {f['path'] for f in scenario_from(bad).get('files', []) if f.get('group_unnamed')}
            return any(r[0] in half and len(r) > 3 and r[3] is None for r in out.get('recorded_mtimes') or [])
        return rec_wrong or any(v.get('differences') or v.get('restore_errors') for v in versions)
    return False


def run_cases(rep, prog, cases, deadline, prop, name, require=()):
    tot = dict(paths=0, queries=0, solver_s=0.0, cases=0)
    bads, inconc = [], []
    cov = {}
    conf_n = [0]
    for case in cases:
        if deadline and time.time() > deadline:
            inconc.append('time budget exhausted before case %r' % (case,))
            break
        res, st, fns, mods, inc = parallel_explore(prog, B.make_case(prog, case), deadline=deadline, max_paths=200000,
                                                   step_budget=600000)
        tot['paths'] += st['paths']
        tot['nontrivial'] = tot.get('nontrivial', 0) + st.get('nontrivial', 0)
        tot['queries'] += st['queries']
        tot['solver_s'] += st['solver_s']
        tot['cases'] += 1
        rep.functions |= fns
        rep.models |= mods
        if res.get('samples') and not inc and conf_n[0] < MAX_CONFORMANCE:
            conf_n[0] += 1
            msg = trace_conformance(res['samples'][0], prop)
            if msg:
                inconc.append('model/implementation disagreement on %s: %s' % (case_name(case), msg))
            else:
                rep.diff_vectors += 1
        if res.get('samples') and len(rep.samples) < 3:
            smp = dict(res['samples'][0])
            smp.pop('log', None)
            rep.samples.append(smp)
        bads += res.get('bad', [])
        for k, v in res.items():
            if k.startswith('cov:'):
                cov[k[4:]] = cov.get(k[4:], 0) + v
        inconc += ['%s: %s' % (case_name(case), x) for x in inc[:3]]
    tot['solver_s'] = round(tot['solver_s'], 2)
    tot['witnesses'] = dict(sorted(cov.items()))
    rep.witnesses.setdefault(name, {}).update(tot['witnesses'])
    if not inconc and not bads:
        # vacuity guard: every situation the obligation is about must have been reached by at least one path
        for need in require:
            if not any(re.search(need, k) and v > 0 for k, v in cov.items()):
                inconc.append('vacuity: no explored path reached %r' % need)
    seen = set()
    for b in bads:
        probs = b.get('problems') or ['panic: %s in %s' % (b.get('msg'), b.get('where'))]
        for pr in probs:
            kind = classify(pr)
            where = ''
            if b.get('kind') == 'panic':
                where = ':' + re.sub(r'<impl at [^>]*>', '', (b.get('where') or '')).split(' ')[0]
            mode = b['case']['mode']
            fired = b.get('fired')
            key = 'backup:%s:%s%s%s' % (kind, mode, ':' + fired[1] + ':' + path_role(fired[2]) if fired else '', where)
            if key in seen:
                continue
            seen.add(key)
            sc = scenario_from(b)
            out, path = runner.replay(sc, prop + '_backup')
            rep.violation(key, pr[:700], path, reproduced(kind, out, b))
    if inconc:
        rep.inconclusive += inconc[:6]
        rep.add_obligation(name, 'inconclusive', tot, inconc[:3])
    elif bads:
        rep.add_obligation(name, 'violated', tot, [{k: v for k, v in b.items() if k not in ('log', 'model')} for b in bads[:3]])
    else:
        rep.add_obligation(name, 'holds', tot)
    return bads


MAX_CONFORMANCE = 6


def normalize_trace(ops):
    """Storage trace -> comparable form: block hashes are renamed by first appearance, block subdirectories are anonymous,
    a run of block-subdirectory listings (issued concurrently by list_blocks) counts once."""
    hmap, out = {}, []
    for v, p in ops:
        m = re.match(r'^d/([0-9a-f]{3})(?:/([0-9a-f]{128}))?$', p)
        if m:
            if m.group(2):
                h = hmap.setdefault(m.group(2), 'B%d' % len(hmap))
                p = 'd/*/' + h
            else:
                p = 'd/*'
        out.append((v, p))
    res = []
    for o in out:
        # the number of block subdirectories depends on the hash values, so a run of listings counts once
        if o == ('list_dir', 'd/*') and res and res[-1] == o:
            continue
        res.append(o)
    return res


def trace_conformance(sample, prop):
    """Replay one explored path natively with the same sizes/options/fault and compare the storage traces of the
    backup under test.  Returns None when they agree, else a description of the first difference."""
    bad = {'case': sample['case'], 'model': sample.get('model') or {}, 'fired': sample.get('fired'), 'log': sample.get('log', []), 'problems': [],
           'first_step': sample.get('first_step', 0)}
    sc = scenario_from(bad)
    sc['follow_up'] = False
    out, path = runner.replay(sc, prop + '_conformance')
    if out.get('panic'):
        return 'native run panicked (%s)' % path
    if out.get('format_problems'):
        # the independent native reader of the archive directory objects to what the real run wrote on a path the model found clean
        return 'independent format reader: %s (%s)' % (out['format_problems'][:2], path)
    ops = out.get('ops', [])
    cut = next((i for i, o in enumerate(ops) if o[0] == 'inspect'), len(ops))     # what follows is the replay's own read-only inspection
    native = normalize_trace([(o[0], o[1]) for o in ops[:cut] if o[0] not in ('rewrite', 'follow_up')])
    model = normalize_trace(sample['storage_trace'])
    if sample.get('fired') and sample['fired'][3] in ('stop', 'empty_stop') and len(native) > len(model):
        native = native[:len(model)]      # the native hook also logs the operation it stopped at
    if native != model:
        for i, (a, b) in enumerate(zip(native + [None] * len(model), model + [None] * len(native))):
            if a != b:
                return 'storage operation %d: implementation %r, model %r (%s)' % (i, a, b, path)
    return None


def path_role(p):
    if p.startswith('d/'):
        return 'block' if p.count('/') == 2 else 'blockdir'
    if p.endswith('BANDHEAD'):
        return 'head'
    if p.endswith('BANDTAIL'):
        return 'tail'
    if '/i/' in p or p.endswith('/i'):
        return 'hunk' if p.count('/') >= 3 else 'indexdir'
    if p == 'GC_LOCK':
        return 'lock'
    if re.match(r'^b\d+$', p):
        return 'banddir'
    return 'root' if p == '' else 'other'


def case_name(c):
    return '%s/%s/%s%s%s%s' % (c['kinds'], ''.join(map(str, c['classes'])), c['mode'], '/prior=' + c['prior'] if c.get('prior') else '',
                               '/nested-paths' if c.get('paths') else '', '/headless-band-above' if c.get('headless_above') else '') + \
        ('/last-file-shrinks' if c.get('shrink') else '') + ('/last-file-read-fails' if c.get('read_errors') else '') + \
        ('/sizes=%s/opts=%s' % (c['sizes'], list(c['fixed_opts'])) if c.get('sizes') and c.get('fixed_opts') and not c.get('paths') else '')


COMMON_ASSUMPTIONS = [
    'the source walk is replaced by a harness-chosen, path-ordered entry list (C11 covers the order); reading a regular file delivers min(room, remaining) bytes',
    'hash = injective function of content provenance (content classes); distinct classes share no bytes',
    'Snappy / JSON are exact inverses; BlockDir::open/list_blocks modelled; tokio spawn runs at once',
    'transport model mirsym/env.py Store with the local backend\'s behaviour for CreateNew (overwrites) plus a write-once monitor',
    'file sizes <= 3*max_block_size, max_block_size in [1,2^25], small_file_cap in [0,2^26], max_entries_per_hunk in [1,4], all symbolic',
]
