"""Facts read from /repo/src that the MIR text does not carry:
* which (trait, self type) an `<impl at file:L:C: L:C>` span stands for;
* declaration order of enum variants (MIR aggregates name variants, switchInt uses indices).
"""
import os
import re

from .mirparse import scan_balanced, strip_generics, split_top

REPO = os.environ.get('VERIF_REPO', '/repo')

_IMPL_AT = re.compile(r'<impl at (src/[^:]+):(\d+):(\d+): (\d+):(\d+)>')


def last_seg(path):
    """Last identifier of a type path: 'std::vec::Vec<u8>' -> 'Vec', '&mut foo::Bar' -> 'Bar'."""
    p = path.strip()
    while p.startswith(('&', '*')):
        p = p.lstrip('&*').strip()
        if p.startswith("'"):
            p = p.split(' ', 1)[1] if ' ' in p else p
        if p.startswith('mut '):
            p = p[4:]
        if p.startswith('const '):
            p = p[6:]
    if p.startswith('dyn '):
        p = p[4:]
    p = strip_generics(p)
    if p.startswith('<') or p.startswith('{') or p.startswith('(') or p.startswith('['):
        return p
    return p.split('::')[-1].strip()


class SrcInfo:
    def __init__(self, repo=REPO):
        self.repo = repo
        self._files = {}
        self._impl_cache = {}
        self.enums = {}      # (module, Name) -> [variant names]
        self.enum_by_name = {}
        self.drop_types = set()
        self.structs = {}    # Name -> [(module, [field names])]
        self.serde_skip = {}
        self._scan_enums()

    def lines(self, rel):
        if rel not in self._files:
            with open(os.path.join(self.repo, rel), encoding='utf-8') as f:
                self._files[rel] = f.read().split('\n')
        return self._files[rel]

    # ------------------------------------------------------------------ impl spans
    def impl_of(self, fn_name):
        """-> (self_type_last, trait_last or None, trait_text or None) for the innermost impl span, or None."""
        ms = list(_IMPL_AT.finditer(fn_name))
        if not ms:
            return None
        m = ms[-1]
        key = m.group(0)
        if key in self._impl_cache:
            return self._impl_cache[key]
        rel, l1, c1, l2, c2 = m.group(1), int(m.group(2)), int(m.group(3)), int(m.group(4)), int(m.group(5))
        try:
            ls = self.lines(rel)
        except OSError:
            self._impl_cache[key] = None
            return None
        if l1 == l2:
            text = ls[l1 - 1][c1 - 1:c2 - 1]
        else:
            text = ls[l1 - 1][c1 - 1:] + ' ' + ' '.join(x.strip() for x in ls[l1:l2 - 1]) + ' ' + ls[l2 - 1][:c2 - 1]
        text = text.strip()
        res = None
        if text.startswith('impl'):
            t = text[4:].strip()
            if t.startswith('<'):
                t = t[scan_balanced(t, 0):].strip()
            if t.startswith('!'):
                t = t[1:]
            parts = re.split(r'\s+for\s+', t, maxsplit=1)
            if len(parts) == 2:
                trait_text, ty = parts[0].strip(), parts[1].strip()
                res = (last_seg(ty.split(' where ')[0].strip()), last_seg(trait_text), re.sub(r"'\w+ ?", '', trait_text))
            else:
                res = (last_seg(t.split(' where ')[0].strip()), None, None)
        else:
            # a derive: the span is the trait name; the type is the next struct/enum item
            trait = text.split('::')[-1]
            ty = None
            for j in range(l1 - 1, min(l1 + 40, len(ls))):
                mm = re.match(r'\s*(?:pub(?:\([^)]*\))?\s+)?(?:struct|enum|union)\s+(\w+)', ls[j])
                if mm:
                    ty = mm.group(1)
                    break
            if ty:
                res = (ty, trait, trait)
        self._impl_cache[key] = res
        return res

    # ------------------------------------------------------------------ enums
    def _scan_enums(self):
        src = os.path.join(self.repo, 'src')
        for root, _dirs, files in os.walk(src):
            for fn in files:
                if not fn.endswith('.rs'):
                    continue
                path = os.path.join(root, fn)
                rel = os.path.relpath(path, src)
                mod = rel[:-3].replace(os.sep, '::')
                if mod.endswith('::mod'):
                    mod = mod[:-5]
                if mod == 'lib':
                    mod = ''
                try:
                    text = open(path, encoding='utf-8').read()
                except OSError:
                    continue
                for m in re.finditer(r'\benum\s+(\w+)\s*(<[^{]*>)?\s*(?:where[^{]*)?\{', text):
                    name = m.group(1)
                    start = m.end() - 1
                    try:
                        end = _match_brace(text, start)
                    except ValueError:
                        continue
                    body = text[start + 1:end]
                    variants = _variants(body)
                    self.enums[(mod, name)] = variants
                    self.enum_by_name.setdefault(name, []).append((mod, variants))
                for m in re.finditer(r'\bstruct\s+(\w+)\s*(<[^{(;]*>)?\s*(?:where[^{]*)?\{', text):
                    name = m.group(1)
                    start = m.end() - 1
                    try:
                        end = _match_brace(text, start)
                    except ValueError:
                        continue
                    fields = []
                    for it in _variants_raw(text[start + 1:end]):
                        mm = re.match(r'(?:pub(?:\([^)]*\))?\s+)?(\w+)\s*:', it)
                        if mm:
                            fields.append(mm.group(1))
                    self.structs.setdefault(name, []).append((mod, fields))
                    # serde: fields that are left out of the serialised form when a predicate holds (and come back as
                    # their Default): {struct: {field: (predicate path, field type text)}}
                    for it in _split_items(text[start + 1:end]):
                        sk = re.search(r'skip_serializing_if\s*=\s*"([^"]+)"', it)
                        t = it.strip()
                        while t.startswith('#') or t.startswith('//'):
                            if t.startswith('//'):
                                t = t.split('\n', 1)[1].strip() if '\n' in t else ''
                                continue
                            j = t.index('[')
                            k = _match_sq(t, j)
                            t = t[k + 1:].strip()
                        mm = re.match(r'(?:pub(?:\([^)]*\))?\s+)?(\w+)\s*:\s*(.*)$', t, re.S)
                        if sk and mm:
                            self.serde_skip.setdefault(name, {})[mm.group(1)] = (sk.group(1), mm.group(2).strip())
                for m in re.finditer(r'impl(?:<[^>]*>)?\s+Drop\s+for\s+(\w+)', text):
                    self.drop_types.add(m.group(1))

    def variant_index(self, enum_ty, variant):
        """enum_ty: a type path such as 'errors::Error' or 'std::result::Result<..>'."""
        name = last_seg(enum_ty)
        std = STD_ENUMS.get(name)
        path = strip_generics(enum_ty.strip())
        cands = self.enum_by_name.get(name, [])
        if cands and not path.startswith(('std::', 'core::', 'alloc::')):
            mods = [c for c in cands if variant in c[1]]
            if len(mods) > 1:
                pm = '::'.join(path.split('::')[:-1])
                exact = [c for c in mods if c[0] == pm or c[0].endswith('::' + pm) or pm.endswith(c[0])]
                if exact:
                    mods = exact
            if mods:
                return mods[0][1].index(variant)
        if std and variant in std:
            return std[variant]
        return None

    def struct_fields(self, name, module_hint=None):
        cands = self.structs.get(last_seg(name), [])
        if not cands:
            return None
        if len(cands) > 1 and module_hint:
            best = [c for c in cands if c[0] == module_hint or c[0].endswith(module_hint)]
            if best:
                return best[0][1]
        if len(cands) > 1 and '::' in name:
            pm = '::'.join(strip_generics(name).split('::')[:-1])
            best = [c for c in cands if c[0] == pm or c[0].endswith('::' + pm)]
            if best:
                return best[0][1]
        return cands[0][1]

    def variants_of(self, enum_ty):
        name = last_seg(enum_ty)
        cands = self.enum_by_name.get(name, [])
        if cands:
            return cands[0][1]
        std = STD_ENUMS.get(name)
        if std:
            return [k for k, _ in sorted(std.items(), key=lambda kv: kv[1])]
        return None


STD_ENUMS = {
    'Option': {'None': 0, 'Some': 1},
    'Result': {'Ok': 0, 'Err': 1},
    'Poll': {'Ready': 0, 'Pending': 1},
    'ControlFlow': {'Continue': 0, 'Break': 1},
    'Ordering': {'Less': -1, 'Equal': 0, 'Greater': 1},
    'Cow': {'Borrowed': 0, 'Owned': 1},
    'Bound': {'Included': 0, 'Excluded': 1, 'Unbounded': 2},
}


def _match_brace(text, i):
    depth = 0
    n = len(text)
    while i < n:
        c = text[i]
        if c == '/' and text[i + 1:i + 2] == '/':
            i = text.index('\n', i)
            continue
        if c == '"':
            i += 1
            while text[i] != '"':
                i += 2 if text[i] == '\\' else 1
        elif c == '{':
            depth += 1
        elif c == '}':
            depth -= 1
            if depth == 0:
                return i
        i += 1
    raise ValueError('unbalanced')


def _split_items(body):
    # strip comments
    body = re.sub(r'//[^\n]*', '', body)
    body = re.sub(r'/\*.*?\*/', '', body, flags=re.S)
    out = []
    depth = 0
    cur = []
    items = []
    i, n = 0, len(body)
    while i < n:
        c = body[i]
        if c == '"':
            j = i + 1
            while body[j] != '"':
                j += 2 if body[j] == '\\' else 1
            cur.append(body[i:j + 1])
            i = j + 1
            continue
        if c in '({[<':
            depth += 1
        elif c in ')}]>' and not (c == '>' and body[i - 1] in '-='):
            depth -= 1
        if c == ',' and depth == 0:
            items.append(''.join(cur))
            cur = []
        else:
            cur.append(c)
        i += 1
    if ''.join(cur).strip():
        items.append(''.join(cur))
    return items


def _variants_raw(body):
    out = []
    for it in _split_items(body):
        t = it.strip()
        while t.startswith('#'):
            j = t.index('[')
            k = _match_sq(t, j)
            t = t[k + 1:].strip()
        if t:
            out.append(t)
    return out


def _variants(body):
    out = []
    for it in _split_items(body):
        t = it.strip()
        # drop attributes
        while t.startswith('#'):
            j = t.index('[')
            k = _match_sq(t, j)
            t = t[k + 1:].strip()
        m = re.match(r'(\w+)', t)
        if m:
            out.append(m.group(1))
    return out


def _match_sq(t, i):
    depth = 0
    while i < len(t):
        if t[i] == '"':
            i += 1
            while t[i] != '"':
                i += 2 if t[i] == '\\' else 1
        elif t[i] == '[':
            depth += 1
        elif t[i] == ']':
            depth -= 1
            if depth == 0:
                return i
        i += 1
    raise ValueError


def _load_io_errorkind():
    """Variant order of std::io::ErrorKind, read from the rust-src of the toolchain that printed the MIR."""
    import subprocess
    try:
        root = subprocess.run(['rustc', '+nightly', '--print', 'sysroot'], stdout=subprocess.PIPE, text=True).stdout.strip()
        for rel in ('lib/rustlib/src/rust/library/std/src/io/error.rs', 'lib/rustlib/src/rust/library/core/src/io/error.rs'):
            path = os.path.join(root, rel)
            if not os.path.exists(path):
                continue
            text = open(path, encoding='utf-8').read()
            m = re.search(r'pub enum ErrorKind\s*\{', text)
            if not m:
                continue
            end = _match_brace(text, m.end() - 1)
            names = _variants(text[m.end():end])
            if 'NotFound' in names:
                return {n: i for i, n in enumerate(names)}
    except Exception:
        pass
    return None


_ek = _load_io_errorkind()
if _ek:
    STD_ENUMS['ErrorKind'] = _ek
