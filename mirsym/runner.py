"""Common driver: regenerate the MIR from /repo, build the native replay driver, run obligations,
replay counterexamples natively, apply the known-findings file, write evidence, set the exit code.

Exit codes: 0 = every obligation bounded-holds (or only listed known findings failed);
            1 = a violation that reproduces natively and is not a listed known finding;
            2 = inconclusive (unsupported MIR, solver unknown, budget, non-reproducing counterexample,
                build failure).  Never reported as success.
"""
import fcntl
import hashlib
import json
import os
import subprocess
import sys
import time

VERIF = os.path.dirname(os.path.dirname(os.path.abspath(__file__)))
REPO = os.environ.get('VERIF_REPO', '/repo')
WORK = os.path.join(VERIF, 'work')
MIR_PATH = os.path.join(WORK, 'conserve.mir')
REPLAY_DIR = os.path.join(VERIF, 'replay')
REPLAY_BIN = os.path.join(REPLAY_DIR, 'target', 'debug', 'verif-replay')
KNOWN = os.path.join(VERIF, 'known_findings.json')

ENV = dict(os.environ, CARGO_NET_OFFLINE='true', RUSTC_WRAPPER=os.path.join(VERIF, 'bin', 'rustc-wrap'))


def log(*a):
    print(*a, file=sys.stderr, flush=True)


def src_hash():
    h = hashlib.sha256()
    for root, dirs, files in os.walk(os.path.join(REPO, 'src')):
        dirs.sort()
        for f in sorted(files):
            p = os.path.join(root, f)
            h.update(p.encode())
            with open(p, 'rb') as fh:
                h.update(fh.read())
    for f in ('Cargo.toml', 'Cargo.lock'):
        with open(os.path.join(REPO, f), 'rb') as fh:
            h.update(fh.read())
    return h.hexdigest()


class Lock:
    def __init__(self, name):
        os.makedirs(WORK, exist_ok=True)
        self.path = os.path.join(WORK, name + '.lock')

    def __enter__(self):
        self.f = open(self.path, 'w')
        fcntl.flock(self.f, fcntl.LOCK_EX)
        return self

    def __exit__(self, *a):
        fcntl.flock(self.f, fcntl.LOCK_UN)
        self.f.close()


def dump_mir():
    """Regenerate the MIR text from /repo's working tree.  Returns (text, seconds, reused)."""
    t = time.time()
    h = src_hash()
    stamp = MIR_PATH + '.hash'
    with Lock('mir'):
        if os.environ.get('VERIF_REUSE_MIR') == '1' and os.path.exists(stamp) and open(stamp).read() == h \
                and os.path.exists(MIR_PATH):
            return open(MIR_PATH).read(), time.time() - t, True
        cmd = ['cargo', '+nightly', 'rustc', '--offline', '--lib', '--no-default-features',
               '--target-dir', os.path.join(WORK, 'mir-target'), '--',
               '-Zunpretty=mir', '-C', 'debug-assertions=off', '-C', 'overflow-checks=on']
        # force rustc to run again even if cargo thinks the crate is fresh
        fp = os.path.join(WORK, 'mir-target', 'debug', '.fingerprint')
        if os.path.isdir(fp):
            for d in os.listdir(fp):
                if d.startswith('conserve-'):
                    subprocess.run(['rm', '-rf', os.path.join(fp, d)])
        p = subprocess.run(cmd, cwd=REPO, env=ENV, stdout=subprocess.PIPE, stderr=subprocess.PIPE, text=True)
        if p.returncode != 0 or len(p.stdout) < 1000:
            if 'rustix' in p.stderr:
                # a cached failed build-script probe; clear and retry once
                subprocess.run('rm -rf %s/mir-target/debug/build/rustix*' % WORK, shell=True)
                p = subprocess.run(cmd, cwd=REPO, env=ENV, stdout=subprocess.PIPE, stderr=subprocess.PIPE, text=True)
        if p.returncode != 0 or len(p.stdout) < 1000:
            log(p.stderr[-3000:])
            raise BuildError('MIR dump failed (does /repo compile?)')
        with open(MIR_PATH, 'w') as f:
            f.write(p.stdout)
        with open(stamp, 'w') as f:
            f.write(h)
        return p.stdout, time.time() - t, False


class BuildError(Exception):
    pass


def build_replay(features=False):
    t = time.time()
    with Lock('replay'):
        lock_src = os.path.join(REPO, 'Cargo.lock')
        cmd = ['cargo', 'build', '--offline']
        p = subprocess.run(cmd, cwd=REPLAY_DIR, env=ENV, stdout=subprocess.PIPE, stderr=subprocess.STDOUT, text=True)
        if p.returncode != 0:
            log(p.stdout[-3000:])
            raise BuildError('replay driver build failed')
    return time.time() - t


_replay_n = [0]


def replay(scenario, name):
    """Run a scenario natively; returns parsed JSON output."""
    os.makedirs(os.path.join(VERIF, 'replays'), exist_ok=True)
    _replay_n[0] += 1
    path = os.path.join(VERIF, 'replays', '%s_%d_%03d.json' % (name, os.getpid(), _replay_n[0]))
    with open(path, 'w') as f:
        json.dump(scenario, f, indent=1)
    p = subprocess.run([REPLAY_BIN, path], stdout=subprocess.PIPE, stderr=subprocess.PIPE, text=True, timeout=600)
    try:
        out = json.loads(p.stdout.strip().split('\n')[-1])
    except Exception:
        out = {'error': 'replay driver failed', 'rc': p.returncode, 'stderr': p.stderr[-2000:]}
    return out, path


def load_known():
    if not os.path.exists(KNOWN):
        return []
    return json.load(open(KNOWN)).get('findings', [])


class Report:
    """Collects obligation results for one property check and writes the evidence file."""

    def __init__(self, prop, tier, level='model_checking'):
        self.prop, self.tier, self.level = prop, tier, level
        self.seed = int(os.environ.get('VERIF_SEED', '0') or 0)
        self.t0 = time.time()
        self.obligations = []
        self.violations = []       # dicts: key, what, replay, reproduced
        self.known_hits = []
        self.inconclusive = []
        self.samples = []
        self.assumptions = []
        self.functions = set()
        self.models = set()
        self.bounds = {}
        self.extra = {}
        self.diff_vectors = 0
        self.witnesses = {}
        self.known = [k for k in load_known() if k.get('property') == prop]

    def add_obligation(self, name, status, stats=None, detail=None):
        self.obligations.append(dict(name=name, status=status, stats=stats or {}, detail=detail))

    def violation(self, key, what, replay_path, reproduced):
        for k in self.known:
            if k.get('status') == 'known' and k.get('key') == key:
                if key not in [h['key'] for h in self.known_hits]:
                    self.known_hits.append(dict(key=key, what=what, replay=replay_path))
                return 'known'
        if key in [v['key'] for v in self.violations]:
            return 'violation'
        if not reproduced:
            self.inconclusive.append('counterexample for %s did not reproduce natively (%s)' % (key, replay_path))
            return 'unreproduced'
        self.violations.append(dict(key=key, what=what, replay=replay_path))
        return 'violation'

    def finish(self):
        wall = time.time() - self.t0
        n_obl = len(self.obligations)
        held = sum(1 for o in self.obligations if o['status'] == 'holds')
        paths = sum(o['stats'].get('paths', 0) for o in self.obligations)
        queries = sum(o['stats'].get('queries', 0) for o in self.obligations)
        solver_s = sum(o['stats'].get('solver_s', 0) for o in self.obligations)
        nontrivial = sum(o['stats'].get('nontrivial', 0) for o in self.obligations)
        ev = {
            'property_id': self.prop,
            'tier': self.tier,
            'seed': self.seed,
            'level': self.level,
            'wall_s': round(wall, 2),
            'violations': len(self.violations),
            'assumptions': self.assumptions,
            'coverage': {
                'states': max(paths, 1),
                'transitions': max(queries, 1),
                'traces_validated_against_impl': self.diff_vectors,
                'evaluations': max(paths, 1),
                'distinct_nontrivial': nontrivial,
                'rule': 'one evaluation = one feasible symbolic path through the real MIR; paths are distinct by construction '
                        '(distinct decision sequences). A path is counted non-trivial when it was selected among alternatives by '
                        'at least one solver-decided branch and ends with a non-empty path condition (a straight-line run with no '
                        'symbolic decision, or a Kani harness, is not counted); states = paths explored, transitions = SMT queries '
                        'discharged; traces_validated_against_impl = explored paths (or differential vectors) re-run natively '
                        'against the real crate with identical outcome / storage trace',
                'samples': self.samples[:12] or [{'note': 'no sample recorded'}],
                'obligations': n_obl,
                'discharged': held,
                'obligation_results': self.obligations,
                'solver_s': round(solver_s, 3),
                'functions_encoded': sorted(self.functions),
                'models_and_stubs': sorted(self.models),
                'bounds': self.bounds,
                'witnesses_reached': self.witnesses,
                'known_findings_hit': self.known_hits,
                'inconclusive': self.inconclusive,
                'explanation': 'bounded symbolic execution of the MIR of /repo (regenerated this run) with z3; '
                               'see obligation_results',
                'exhaustive': False,
            },
        }
        ev['coverage'].update(self.extra)
        os.makedirs(os.path.join(VERIF, 'evidence'), exist_ok=True)
        with open(os.path.join(VERIF, 'evidence', self.prop + '.json'), 'w') as f:
            json.dump(ev, f, indent=1, default=str)
        for h in self.known_hits:
            print('KNOWN-FINDING: property=%s %s' % (self.prop, h['what']))
        for v in self.violations:
            print('VIOLATION property=%s replay=%s' % (self.prop, v['replay']))
            print('  ' + v['what'])
        for o in self.obligations:
            print('%-12s %s %s' % (o['status'], o['name'], json.dumps(o['stats'])))
        if self.violations:
            print('RESULT %s: VIOLATED (%d)' % (self.prop, len(self.violations)))
            return 1
        if self.inconclusive:
            for i in self.inconclusive[:10]:
                print('INCONCLUSIVE: ' + i)
            print('RESULT %s: INCONCLUSIVE' % self.prop)
            return 2
        print('RESULT %s: bounded-holds (%d obligations, %d paths, %d queries, %.1fs)'
              % (self.prop, n_obl, paths, queries, wall))
        return 0
