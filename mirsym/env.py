"""Environment models: symbolic archive store behind `Transport`, byte payloads, hashing, compression,
JSON, the Monitor, time.  Every model here is part of the trusted base and is listed in the evidence.
"""
import re
import os
import sys

import z3

from . import mirparse as P
from .srcinfo import last_seg
from .values import *  # noqa
from .interp import BytesLit, copy_value, type_tag
from . import models as M
from .models import deref, some, none, ok, err, clone_value, ReadyFuture


class Crash(Exception):
    """The modelled process was killed at a storage step."""


# ============================================================================ constructing crate values
def mk(ex, ty, **fields):
    names = ex.prog.src.struct_fields(ty)
    if names is None:
        raise Unsupported('struct %s not found in source' % ty)
    extra = set(fields) - set(names)
    if extra:
        raise Unsupported('struct %s has no field(s) %s' % (ty, sorted(extra)))
    missing = [n for n in names if n not in fields]
    if missing:
        raise Unsupported('struct %s: fields %s not provided by the harness' % (ty, missing))
    return Agg(ty, None, [fields[n] for n in names])


def field(ex, v, ty, name):
    names = ex.prog.src.struct_fields(ty)
    if names is None or name not in names:
        raise Unsupported('struct %s has no field %s' % (ty, name))
    return deref(v).fields[names.index(name)]


def set_field(ex, v, ty, name, val):
    names = ex.prog.src.struct_fields(ty)
    deref(v).fields[names.index(name)] = val


def enum_val(ex, ty, variant, fields=()):
    idx = ex.prog.src.variant_index(ty, variant)
    if idx is None:
        raise Unsupported('enum %s has no variant %s' % (ty, variant))
    return Agg(ty, idx, list(fields), variant)


def variant_name(ex, v):
    v = deref(v)
    if v.vname:
        return v.vname
    names = ex.prog.src.variants_of(v.ty)
    if names and isinstance(v.variant, int) and 0 <= v.variant < len(names):
        return names[v.variant]
    return str(v.variant)


# ============================================================================ payloads (contents of files / byte buffers)
class Payload(Model):
    ty = 'Payload'
    unsized = True

    def length(self, ex):
        raise NotImplementedError

    def byte_len(self):
        return self._len


class Raw(Payload):
    def __init__(self, data):
        self.data = bytes(data)
        self._len = len(self.data)

    def length(self, ex):
        return len(self.data)

    def same(self, ex, other):
        return isinstance(other, Raw) and other.data == self.data

    def __repr__(self):
        return 'Raw(%r)' % (self.data,)


class JsonDoc(Payload):
    """serde_json serialisation of a value (a deep snapshot), optionally followed by a newline."""

    def __init__(self, value, ty, length):
        self.value, self.vty, self._len = value, ty, length
        self.newline = False

    def length(self, ex):
        return self._len

    def same(self, ex, other):
        return other is self

    def eq_model(self, ex, other):
        """Byte equality of two serialisations (`existing == what_i_was_going_to_write`): the same document, or two documents
        of the same type whose values are equal (serialisation is a function of the value)."""
        other = deref(other)
        if other is self:
            return True
        if isinstance(other, JsonDoc) and other.vty == self.vty and bool(other.newline) == bool(self.newline):
            return M.values_eq(ex, self.value, other.value)
        return False

    def __repr__(self):
        return 'Json<%s>' % self.vty


class Compressed(Payload):
    def __init__(self, inner, length):
        self.inner, self._len = inner, length

    def length(self, ex):
        return self._len

    def same(self, ex, other):
        return isinstance(other, Compressed) and other.inner.same(ex, self.inner) is True

    def __repr__(self):
        return 'Snappy(%r)' % (self.inner,)


class Garbage(Payload):
    """Bytes that neither decompress nor parse."""

    def __init__(self, length=7):
        self._len = length

    def length(self, ex):
        return self._len

    def same(self, ex, other):
        return other is self


class Data(Payload):
    """Uncompressed file content: a list of segments (content class, offset, length); offsets/lengths may be symbolic."""

    def __init__(self, segs):
        self.segs = normalize_segs(segs)
        t = 0
        for _c, _o, l in self.segs:
            t = t + l
        self._len = t

    def length(self, ex):
        return self._len

    def same(self, ex, other):
        if not isinstance(other, Data) or len(other.segs) != len(self.segs):
            return False
        conj = []
        for (c1, o1, l1), (c2, o2, l2) in zip(self.segs, other.segs):
            if c1 != c2:
                return False
            conj.append(eq(o1, o2))
            conj.append(eq(l1, l2))
        return b_and(*conj)

    def canon(self, ex):
        """Merge adjacent segments of one class whose ranges are provably contiguous under the path condition."""
        out = []
        for c, o, l in self.segs:
            if is_sym(l) and ex.check_holds(eq(l, 0))[0]:
                continue
            if out and out[-1][0] == c and c != 'zero':
                pc, po, pl = out[-1]
                if ex.check_holds(eq(po + pl, o))[0]:
                    nl = pl + l
                    out[-1] = (pc, po, z3.simplify(nl) if is_sym(nl) else nl)
                    continue
            out.append((c, o, l))
        d = Data([])
        d.segs = out
        t = 0
        for _c, _o, l in out:
            t = t + l
        d._len = t
        return d

    def slice(self, ex, start, end):
        """Sub-range [start, end) as segments; start/end may be symbolic but must resolve by forking."""
        out = []
        pos = 0
        for c, o, l in self.segs:
            seg_end = pos + l
            a = ite_max(start, pos)
            b = ite_min(end, seg_end)
            nonempty = b_lt(a, b)
            if ex.branch(nonempty, 'slice seg'):
                out.append((c, o + (a - pos), b - a))
            pos = seg_end
        return Data(out)

    def __repr__(self):
        return 'Data%r' % (self.segs,)


def ite_max(a, b):
    return ite(b_lt(a, b), b, a)


def ite_min(a, b):
    return ite(b_lt(a, b), a, b)


def normalize_segs(segs):
    out = []
    for c, o, l in segs:
        if not is_sym(l) and l == 0:
            continue
        if out and out[-1][0] == c and c != 'zero':
            pc, po, pl = out[-1]
            adj = z3.simplify(zint(po) + zint(pl) == zint(o))
            if z3.is_true(adj):
                nl = pl + l
                if is_sym(nl):
                    nl = z3.simplify(nl)
                    if z3.is_int_value(nl):
                        nl = nl.as_long()
                out[-1] = (pc, po, nl)
                continue
        if out and out[-1][0] == 'zero' and c == 'zero':
            out[-1] = ('zero', 0, out[-1][2] + l)
            continue
        out.append((c, o, l))
    return out


# ============================================================================ block hashes
class HashV(Model):
    """A BlockHash: identified by a small integer id; ids are assigned by content (hash-consing with forking)."""
    ty = 'BlockHash'

    def __init__(self, hid, name=None):
        self.hid = hid
        self.name = name or hash_name(hid)

    def eq_model(self, ex, other):
        other = deref(other)
        return isinstance(other, HashV) and other.hid == self.hid

    def clone_model(self):
        return self

    def display(self, ex):
        return self.name

    def cmp_key(self):
        return self.hid

    def __repr__(self):
        return 'H%d' % self.hid


def hash_name(hid):
    # 128 hex digits; the first three (the subdirectory) vary with the id so that different blocks
    # may or may not share a subdirectory
    return '%02x%x' % (hid % 7, hid % 16) + ('%0125x' % hid)


class HashTable:
    """Content -> hash id (uninterpreted injective function, decided by forking on content equality)."""

    def __init__(self):
        self.known = []      # (payload, HashV)

    def hash_of(self, ex, payload):
        for p, h in self.known:
            if ex.branch(p.same(ex, payload), 'hash eq'):
                return h
        h = HashV(len(self.known) + 1)
        self.known.append((payload, h))
        return h

    def content_of(self, h):
        for p, hh in self.known:
            if hh.hid == h.hid:
                return p
        return None


# ============================================================================ the store
class Node:
    __slots__ = ('kind', 'payload', 'born')

    def __init__(self, kind, payload=None, born='pre'):
        self.kind, self.payload, self.born = kind, payload, born

    def __repr__(self):
        return 'dir' if self.kind == 'dir' else 'file(%r)' % (self.payload,)


class Policy:
    """Decides, per storage step, whether it proceeds, fails, or is where the process dies."""

    def on_step(self, ex, store, idx, actor, verb, path, mutating):
        return None      # None = proceed | ('fail', kind_name) | 'stop' | 'empty_stop'


class Store:
    def __init__(self, ex, policy=None, createnew='local'):
        self.ex = ex
        self.nodes = {'': Node('dir')}
        self.log = []
        self.policy = policy or Policy()
        self.createnew = createnew
        self.flag_attempts = True    # single-actor harnesses: even a refused second write of a path is reported
        self.hashes = HashTable()
        self.actor = 'main'
        self.nsteps = 0
        self.violations = []      # write-once monitor findings: (step, verb, path, why)
        self.mode = 'pre'         # nodes created while mode == 'pre' are pre-existing
        self.time = 0
        self.writers = {}
        self.scheduler = None     # set by the race harness: decides who performs the next storage step

    # -- direct manipulation by harnesses
    def put_dir(self, path):
        parts = path.split('/')
        for i in range(1, len(parts) + 1):
            p = '/'.join(parts[:i])
            if p not in self.nodes:
                self.nodes[p] = Node('dir', born=self.mode)

    def put_file(self, path, payload):
        if '/' in path:
            self.put_dir(path.rsplit('/', 1)[0])
        self.nodes[path] = Node('file', payload, born=self.mode)

    def children(self, path):
        pre = path + '/' if path else ''
        out = []
        for p in self.nodes:
            if p and p.startswith(pre) and '/' not in p[len(pre):] and p != path:
                out.append(p[len(pre):])
        return sorted(out, reverse=True)

    def snapshot(self):
        return {p: (n.kind, n.payload) for p, n in self.nodes.items()}

    # -- steps
    def step(self, verb, path, mutating, payload=None):
        if self.scheduler is not None:
            self.scheduler.before_step(self.actor, verb, path)
        idx = self.nsteps
        self.nsteps += 1
        act = self.policy.on_step(self.ex, self, idx, self.actor, verb, path, mutating)
        self.log.append((idx, self.actor, verb, path, act))
        if act is None:
            return None
        if act == 'stop':
            raise Crash('stopped before step %d %s %s' % (idx, verb, path))
        if act == 'empty_stop':
            if verb == 'write':
                parent = path.rsplit('/', 1)[0] if '/' in path else ''
                if parent in self.nodes and path not in self.nodes:
                    self.nodes[path] = Node('file', Raw(b''), born='run')
            raise Crash('stopped inside step %d %s %s (empty file left)' % (idx, verb, path))
        if act[0] == 'fail':
            return t_error(self.ex, act[1])
        raise Unsupported('policy action %r' % (act,))

    def parent_ok(self, path):
        parent = path.rsplit('/', 1)[0] if '/' in path else ''
        n = self.nodes.get(parent)
        return n is not None and n.kind == 'dir'

    def op_read(self, path):
        e = self.step('read', path, False)
        if e is not None:
            return err(e)
        n = self.nodes.get(path)
        if n is None:
            return err(t_error(self.ex, 'NotFound'))
        if n.kind != 'file':
            return err(t_error(self.ex, 'Other'))
        return ok(n.payload)

    def op_write(self, path, payload, mode_name):
        e = self.step('write', path, True, payload)
        if e is not None:
            return err(e)
        if not self.parent_ok(path):
            return err(t_error(self.ex, 'NotFound'))
        n = self.nodes.get(path)
        if n is not None:
            if n.kind == 'dir':
                return err(t_error(self.ex, 'Other'))
            nonempty = b_lt(0, n.payload.length(self.ex))
            if mode_name == 'CreateNew':
                # the local transport (transport/local.rs, checked from MIR by the C07 local-write obligation): CreateNew fails
                # on an existing non-empty file and completes a zero-length leftover; 'strict' (sftp-like) refuses both
                if self.ex.branch(nonempty, 'overwrite nonempty?'):
                    if self.flag_attempts:
                        self.violations.append((self.nsteps - 1, 'write', path, 'existing non-empty file written again (refused by the transport)'))
                    return err(t_error(self.ex, 'AlreadyExists'))
                if self.createnew == 'strict':
                    return err(t_error(self.ex, 'AlreadyExists'))
            elif n.born == 'pre' or self.ex.branch(nonempty, 'overwrite of a file written in this run?'):
                # archive files are write-once: replacing a non-empty file is a violation whoever wrote it
                self.violations.append((self.nsteps - 1, 'write', path, 'existing file overwritten'))
        self.nodes[path] = Node('file', payload, born='run' if self.mode != 'pre' else 'pre')
        if self.mode != 'pre':
            self.writers.setdefault(path, []).append(self.actor)     # who wrote what (racing-backups oracle of C07)
        return ok(UNIT)

    def op_create_dir(self, path):
        e = self.step('create_dir', path, True)
        if e is not None:
            return err(e)
        if path in self.nodes:
            if self.nodes[path].kind == 'dir':
                return ok(UNIT)
            return err(t_error(self.ex, 'AlreadyExists'))
        if not self.parent_ok(path):
            return err(t_error(self.ex, 'NotFound'))
        self.nodes[path] = Node('dir', born='run' if self.mode != 'pre' else 'pre')
        return ok(UNIT)

    def op_list_dir(self, path):
        e = self.step('list_dir', path, False)
        if e is not None:
            return err(e)
        n = self.nodes.get(path)
        if n is None:
            return err(t_error(self.ex, 'NotFound'))
        if n.kind != 'dir':
            return err(t_error(self.ex, 'Other'))
        out = []
        for name in self.children(path):
            c = self.nodes[(path + '/' if path else '') + name]
            if c.kind == 'dir':
                out.append(mk(self.ex, 'transport::DirEntry', name=name, kind=enum_val(self.ex, 'kind::Kind', 'Dir'),
                              len=none()))
            else:
                out.append(mk(self.ex, 'transport::DirEntry', name=name, kind=enum_val(self.ex, 'kind::Kind', 'File'),
                              len=some(c.payload.length(self.ex))))
        return ok(VecV(out))

    def op_metadata(self, path):
        e = self.step('metadata', path, False)
        if e is not None:
            return err(e)
        n = self.nodes.get(path)
        if n is None:
            return err(t_error(self.ex, 'NotFound'))
        kind = enum_val(self.ex, 'kind::Kind', 'Dir' if n.kind == 'dir' else 'File')
        ln = 0 if n.kind == 'dir' else n.payload.length(self.ex)
        return ok(mk(self.ex, 'transport::Metadata', len=ln, kind=kind, modified=Opaque('Timestamp')))

    def op_remove_file(self, path):
        e = self.step('remove_file', path, True)
        if e is not None:
            return err(e)
        n = self.nodes.get(path)
        if n is None:
            return err(t_error(self.ex, 'NotFound'))
        if n.kind != 'file':
            return err(t_error(self.ex, 'Other'))
        del self.nodes[path]
        return ok(UNIT)

    def op_remove_dir_all(self, path):
        e = self.step('remove_dir_all', path, True)
        if e is not None:
            return err(e)
        n = self.nodes.get(path)
        if n is None:
            return err(t_error(self.ex, 'NotFound'))
        if n.kind != 'dir':
            return err(t_error(self.ex, 'Other'))
        for p in [p for p in self.nodes if p == path or p.startswith(path + '/')]:
            del self.nodes[p]
        return ok(UNIT)


def t_error(ex, kind_name):
    return mk(ex, 'transport::error::Error', kind=enum_val(ex, 'transport::error::ErrorKind', kind_name),
              source=none(), url=none())


class TransportV(Model):
    ty = 'Transport'

    def __init__(self, store, sub=''):
        self.store, self.sub = store, sub

    def full(self, rel):
        rel = str_simplify(rel)
        if not isinstance(rel, str):
            raise Unsupported('symbolic storage path')
        if not rel:
            return self.sub
        return self.sub + '/' + rel if self.sub else rel

    def clone_model(self):
        return self


def apply_serde_skips(ex, v, depth=0):
    """What serialisation followed by deserialisation does to a value beyond the identity: a field with
    #[serde(skip_serializing_if = "pred")] is left out when the real predicate (run from MIR) holds and comes back as the field
    type's Default.  Only predicates that are functions of the crate on crate structs are run (Vec::is_empty, Option::is_none
    and the zero tests skip exactly the default value, so they change nothing)."""
    if depth > 6:
        return
    v = deref(v)
    if isinstance(v, M.VecV):
        for x in v.items:
            apply_serde_skips(ex, x, depth + 1)
        return
    if not isinstance(v, Agg) or v.ty is None:
        return
    name = P.strip_generics(v.ty).split('::')[-1]
    skips = ex.prog.src.serde_skip.get(name) or {}
    names = ex.prog.src.struct_fields(v.ty) or []
    for i, fv in enumerate(list(v.fields)):
        fname = names[i] if i < len(names) else None
        if fname in skips:
            pred, fty = skips[fname]
            segs = pred.split('::')
            if segs[0] in ('Vec', 'Option') or 'zero_' in segs[-1]:
                continue
            cands = ex.prog.fn_index.get((segs[-2] if len(segs) > 1 else None, None, segs[-1])) or []
            dname = '<%s as Default>::default' % P.strip_generics(fty).split('::')[-1]
            if len(cands) != 1:
                raise Unsupported('serde skip predicate %s not found in MIR' % pred)
            r = ex.call_fn(cands[0][0], [Ref([fv], 0)])
            if os.environ.get('VERIF_DEBUG_SERDE'):
                print('serde skip', name, fname, pred, '->', r, file=sys.stderr)
            if is_sym(r):
                r = ex.branch(r, 'serde skip predicate')
            if r:
                dc = [n for n in ex.prog.module.fns if n.endswith('::default') and ('<' + P.strip_generics(fty).split('::')[-1].lower()) in n.lower()]
                fld_ty = deref(fv).ty if isinstance(deref(fv), Agg) else None
                sub = ex.prog.src.struct_fields(fld_ty) if fld_ty else None
                if sub is None:
                    raise Unsupported('default of %s for a skipped field' % fty)
                # derive(Default) on a struct of Options / Vecs / integers
                dv = []
                for x in deref(fv).fields:
                    x = deref(x)
                    if isinstance(x, Agg) and last_seg(x.ty or '') == 'Option' or (isinstance(x, Agg) and x.vname in ('Some', 'None')):
                        dv.append(M.none())
                    elif isinstance(x, M.VecV):
                        dv.append(M.VecV([], 'Vec'))
                    elif isinstance(x, int) and not isinstance(x, bool):
                        dv.append(0)
                    elif isinstance(x, bool):
                        dv.append(False)
                    else:
                        raise Unsupported('default of field value %r' % (x,))
                v.fields[i] = Agg(fld_ty, None, dv)
                continue
        apply_serde_skips(ex, fv, depth + 1)


def as_payload(ex, v):
    v = deref(v)
    if isinstance(v, Payload):
        return v
    if isinstance(v, BytesLit):
        return Raw(v.data)
    if isinstance(v, M.StrBytes):
        c = v.s.concrete()
        if c is not None:
            return Raw(c.encode('utf-8'))
    if isinstance(v, BufV):
        return v.freeze()
    cb = M.concrete_bytes(v)
    if cb is not None:
        return Raw(cb)
    raise Unsupported('not a byte payload: %r' % (v,))


def install(ex, store):
    """Register the environment intercepts on an executor."""
    I = ex.intercepts

    def add(pattern, fn):
        I.append((re.compile('(?:' + pattern + r')$'), fn))

    # ---------------- Transport
    def t_async(op):
        def f(ex, c, a):
            t = deref(a[0])
            if not isinstance(t, TransportV):
                return NotImplemented
            args = a[1:]
            return ReadyFuture(lambda: op(t, *args))
        return f

    add(r'(?:transport::)?Transport::read', t_async(lambda t, p: t.store.op_read(t.full(deref(p)))))
    add(r'(?:transport::)?Transport::list_dir', t_async(lambda t, p: t.store.op_list_dir(t.full(deref(p)))))
    add(r'(?:transport::)?Transport::create_dir', t_async(lambda t, p: t.store.op_create_dir(t.full(deref(p)))))
    add(r'(?:transport::)?Transport::metadata', t_async(lambda t, p: t.store.op_metadata(t.full(deref(p)))))
    add(r'(?:transport::)?Transport::remove_file', t_async(lambda t, p: t.store.op_remove_file(t.full(deref(p)))))
    add(r'(?:transport::)?Transport::remove_dir_all', t_async(lambda t, p: t.store.op_remove_dir_all(t.full(deref(p)))))
    add(r'(?:transport::)?Transport::write',
        t_async(lambda t, p, content, mode: t.store.op_write(t.full(deref(p)), as_payload(ex, content),
                                                              variant_name(ex, mode))))
    add(r'(?:transport::)?Transport::chdir', lambda ex, c, a: TransportV(deref(a[0]).store, deref(a[0]).full(deref(a[1]))))
    add(r'<(?:transport::)?Transport as Clone>::clone', lambda ex, c, a: deref(a[0]))
    add(r'<(?:transport::)?Transport as (?:std::fmt::)?Debug>::fmt', lambda ex, c, a: ok(UNIT))
    add(r'(?:transport::)?Transport::local_path', lambda ex, c, a: none())
    add(r'(?:transport::)?Transport::record', lambda ex, c, a: UNIT)

    # ---------------- Monitor
    mon = ex.env.setdefault('monitor', MonitorV())

    def mon_call(ex, c, a):
        name = c.rsplit('::', 1)[1]
        m = deref(a[0])
        if name == 'error':
            m.errors.append(a[1])
            return UNIT
        if name == 'count':
            cn = variant_name(ex, a[1])
            m.counters[cn] = m.counters.get(cn, 0) + a[2]
            return UNIT
        if name == 'set_counter':
            m.counters[variant_name(ex, a[1])] = a[2]
            return UNIT
        if name == 'start_task':
            return TaskV()
        return NotImplemented
    add(r'<dyn (?:monitor::)?Monitor as (?:monitor::)?Monitor>::\w+', mon_call)
    add(r'(?:monitor::task::)?Task::(set_name|increment|set_total|set_done)', lambda ex, c, a: UNIT)
    add(r'<(?:monitor::task::)?Task as Clone>::clone', lambda ex, c, a: deref(a[0]))

    # ---------------- hashing / compression / JSON
    def hash_bytes(ex, c, a):
        return store.hashes.hash_of(ex, as_payload(ex, a[0]))
    add(r'(?:blockhash::)?BlockHash::hash_bytes', hash_bytes)

    def blockhash_trait(ex, c, a):
        m = re.match(r'<&?(?:blockhash::)?BlockHash as ([\w:]+?)(?:<.*>)?>::(\w+)', c)
        trait, meth = m.group(1).split('::')[-1], m.group(2)
        x = deref(a[0])
        if trait == 'FromStr' or (trait == 'TryFrom' and meth == 'try_from'):
            name = str_simplify(x)
            if isinstance(name, str):
                for p0, h0 in store.hashes.known:
                    if h0.name == name:
                        return ok(h0)
                if re.match(r'^[0-9a-f]{128}$', name):
                    h0 = HashV(1000 + len(store.hashes.known), name)
                    store.hashes.known.append((Garbage(), h0))
                    return ok(h0)
            return err(Opaque('BlockHashParseError'))
        if not isinstance(x, HashV):
            return NotImplemented
        if trait == 'Clone':
            return x
        if trait == 'PartialEq':
            r = x.eq_model(ex, a[1])
            return r if meth == 'eq' else not r
        if trait in ('Display', 'Debug'):
            f = deref(a[1])
            f.out = str_concat(f.out, x.name)
            return ok(UNIT)
        if trait == 'ToString':
            return x.name
        if trait in ('Ord', 'PartialOrd'):
            y = deref(a[1])
            o = M.ordering(-1 if x.hid < y.hid else 1 if x.hid > y.hid else 0)
            return some(o) if meth == 'partial_cmp' else o
        if trait == 'Hash':
            return UNIT
        return NotImplemented
    add(r'<&?(?:blockhash::)?BlockHash as .*>::\w+', blockhash_trait)

    def compress(ex, c, a):
        p = as_payload(ex, a[1])
        ln = ex.fresh_int('complen', 1, 1 << 40)
        return ok(Compressed(p, ln))
    add(r'(?:compress::snappy::)?Compressor::compress', compress)
    add(r'(?:compress::snappy::)?Compressor::new|(?:compress::snappy::)?Decompressor::new|<(?:compress::snappy::)?Decompressor as Default>::default',
        lambda ex, c, a: Opaque('codec'))

    def decompress(ex, c, a):
        p = as_payload(ex, a[1])
        if isinstance(p, Compressed):
            return ok(p.inner)
        e = ex.do_call(None, '<errors::Error as From<snap::Error>>::from', [Opaque('snap::Error')], None)
        return err(e)
    add(r'(?:compress::snappy::)?Decompressor::decompress', decompress)

    def to_json(ex, c, a):
        m = re.search(r'to_(?:vec|string)::<(.*)>$', c)
        ty = m.group(1) if m else '?'
        v = clone_value(ex, deref(a[0]))
        apply_serde_skips(ex, v)
        doc = JsonDoc(v, P.strip_generics(ty) if not ty.startswith('Vec') else ty, ex.fresh_int('jsonlen', 2, 1 << 40))
        return ok(doc)
    add(r'(?:serde_json::)?to_vec::<.*>|(?:serde_json::)?to_string::<.*>', to_json)

    def from_json(ex, c, a):
        m = re.search(r'from_slice::<(?:\'_, )?(.*)>$', c)
        want = m.group(1) if m else '?'
        p = as_payload(ex, a[0])
        if isinstance(p, JsonDoc) and (re.match(r'^[A-Z]\w{0,2}$', want) or _json_ty_match(p.vty, want)):
            return ok(clone_value(ex, p.value))
        return err(Opaque('serde_json::Error'))
    add(r'(?:serde_json::)?from_slice::<.*>', from_json)

    # ---------------- clocks
    add(r'(?:jiff::)?Timestamp::now', lambda ex, c, a: TimeV(ex.fresh_int('now', 0, 4000000000), 0))
    install_time(ex)
    add(r'(?:std::time::)?Instant::now', lambda ex, c, a: Opaque('Instant'))
    add(r'(?:std::time::)?Instant::elapsed', lambda ex, c, a: Opaque('Duration'))
    return store


def _json_ty_match(have, want):
    n = lambda t: re.sub(r'\s+', '', P.strip_generics(t).replace('std::vec::', '').replace('index::entry::', '').replace('band::', '').replace('archive::', ''))
    h, w = have, want
    hl = [last_seg(x) for x in re.findall(r'[\w:]+', h)]
    wl = [last_seg(x) for x in re.findall(r'[\w:]+', w)]
    return hl == wl


class MonitorV(Model):
    ty = 'Monitor'

    def __init__(self):
        self.errors = []
        self.counters = {}


class TaskV(Model):
    ty = 'Task'

    def clone_model(self):
        return self


# string produced by serde_json::to_string: supports push('\n') and as_bytes
def _patch_string_models():
    orig_push = M.string_push
    orig_bytes = M.str_as_bytes

    def push(ex, m, a, fr, dest):
        s = a[0].get()
        if isinstance(s, JsonDoc):
            s.newline = True
            return UNIT
        return orig_push(ex, m, a, fr, dest)

    def as_bytes(ex, m, a, fr, dest):
        s = deref(a[0])
        if isinstance(s, Payload):
            return s
        return orig_bytes(ex, m, a, fr, dest)
    for i, (rx, fn) in enumerate(M._TABLE):
        if fn is orig_push:
            M._TABLE[i] = (rx, push)
        if fn is orig_bytes:
            M._TABLE[i] = (rx, as_bytes)
    M._cache.clear()


_patch_string_models()


# ============================================================================ Bytes / BytesMut
class DataBytesIter(Model):
    """Iterator over the bytes of a Data payload, one representative byte per segment: 0 for the 'zero' class, 1 otherwise
    (assumption: a non-zero content class contains at least one non-zero byte, the 'zero' class none)."""
    ty = 'Iter<u8>'

    def __init__(self, data):
        self.data = data

    def as_pyiter(self, ex):
        vals = [0 if c == 'zero' else 1 for (c, o, l) in self.data.segs]
        return M.PyIter(iter([Ref([v], 0) for v in vals]), len(vals))


class BufV(Model):
    """BytesMut: a mutable byte buffer as a list of segments."""
    ty = 'BytesMut'
    unsized = False

    def __init__(self, segs=None):
        self.segs = list(segs or [])

    def length(self):
        t = 0
        for _c, _o, l in self.segs:
            t = t + l
        return t

    def byte_len(self):
        return self.length()

    def freeze(self):
        return Data(self.segs)

    def default_like(self):
        return BufV()


def _payload_len(ex, m, a, fr, dest):
    v = deref(a[0])
    if isinstance(v, BufV):
        return v.length()
    if isinstance(v, Payload):
        return v.length(ex)
    if isinstance(v, BytesLit):
        return len(v.data)
    return NotImplemented


M.model(r'(?:bytes::)?Bytes::len|(?:bytes::)?BytesMut::len|<(?:bytes::)?Bytes(?:Mut)? as (?:bytes::)?Buf>::remaining')(_payload_len)
# Vec<u8>::len / slice len on payloads: extend the generic model
_orig_vec_len = M.vec_len


def _vec_len(ex, m, a, fr, dest):
    v = deref(a[0])
    if isinstance(v, (Payload, BufV)):
        return _payload_len(ex, m, a, fr, dest)
    return _orig_vec_len(ex, m, a, fr, dest)


for _i, (_rx, _fn) in enumerate(M._TABLE):
    if _fn is _orig_vec_len:
        M._TABLE[_i] = (_rx, _vec_len)


@M.model(r'(?:bytes::)?Bytes(?:Mut)?::is_empty')
def bytes_is_empty(ex, m, a, fr, dest):
    v = deref(a[0])
    ln = v.length() if isinstance(v, BufV) else v.length(ex)
    return eq(ln, 0)


@M.model(r'<(?:bytes::)?Bytes as (?:std::ops::)?Deref>::deref|<(?:bytes::)?Bytes as AsRef<\[u8\]>>::as_ref|<(?:bytes::)?Bytes as Clone>::clone|<(?:bytes::)?Bytes as From<(?:std::vec::)?Vec<u8>>>::from|(?:bytes::)?Bytes::copy_from_slice|<(?:bytes::)?Bytes as From<&.*>>::from|(?:bytes::)?Bytes::from_static')
def bytes_identity(ex, m, a, fr, dest):
    v = deref(a[0])
    if isinstance(v, BytesLit):
        return Raw(v.data)
    if isinstance(v, str):
        return Raw(v.encode('utf-8'))
    return v


@M.model(r'(?:bytes::)?Bytes::new|(?:bytes::)?BytesMut::new')
def bytes_new(ex, m, a, fr, dest):
    return BufV() if 'Mut' in m.group(0) else Raw(b'')


@M.model(r'(?:bytes::)?BytesMut::zeroed')
def bytesmut_zeroed(ex, m, a, fr, dest):
    return BufV([('zero', 0, a[0])])


@M.model(r'(?:bytes::)?BytesMut::freeze')
def bytesmut_freeze(ex, m, a, fr, dest):
    return deref(a[0]).freeze()


@M.model(r'(?:bytes::)?BytesMut::truncate')
def bytesmut_truncate(ex, m, a, fr, dest):
    b = deref(a[0])
    n = a[1]
    out, pos = [], 0
    for c, o, l in b.segs:
        end = pos + l
        if ex.branch(b_not(b_lt(n, end)), 'truncate keep whole'):
            out.append((c, o, l))
        elif ex.branch(b_lt(pos, n), 'truncate keep part'):
            out.append((c, o, n - pos))
        pos = end
    b.segs = normalize_segs(out)
    return UNIT


def _split_segs(ex, segs, n):
    """(segments before byte offset n, segments from n on)"""
    left, right, pos = [], [], 0
    for c, o, l in segs:
        end = pos + l
        if ex.branch(b_not(b_lt(n, end)), 'split: segment before the cut'):
            left.append((c, o, l))
        elif ex.branch(b_lt(pos, n), 'split: segment straddles the cut'):
            left.append((c, o, n - pos))
            right.append((c, 0 if c == 'zero' else o + (n - pos), end - n))
        else:
            right.append((c, o, l))
        pos = end
    return normalize_segs(left), normalize_segs(right)


@M.model(r'(?:bytes::)?BytesMut::(split_off|split_to)')
def bytesmut_split(ex, m, a, fr, dest):
    b = deref(a[0])
    n = a[1]
    if not ex.branch(b_not(b_lt(b.length(), n)), 'split within the buffer'):
        raise Panic('BytesMut::%s out of bounds' % m.group(1), fr.name if fr else None)
    left, right = _split_segs(ex, b.segs, n)
    if m.group(1) == 'split_off':
        b.segs = left
        return BufV(right)
    b.segs = right
    return BufV(left)


@M.model(r'(?:bytes::)?BytesMut::split')
def bytesmut_split_all(ex, m, a, fr, dest):
    b = deref(a[0])
    out = BufV(b.segs)
    b.segs = []
    return out


@M.model(r'(?:bytes::)?BytesMut::clear')
def bytesmut_clear(ex, m, a, fr, dest):
    deref(a[0]).segs = []
    return UNIT


@M.model(r'(?:bytes::)?BytesMut::unsplit|(?:bytes::)?BytesMut::extend_from_slice|<(?:bytes::)?BytesMut as Extend<.*>>::extend::<.*>')
def bytesmut_append(ex, m, a, fr, dest):
    b = deref(a[0])
    o = deref(a[1])
    if isinstance(o, BufV):
        b.segs = normalize_segs(b.segs + o.segs)
    elif isinstance(o, Data):
        b.segs = normalize_segs(b.segs + list(o.segs))
    elif isinstance(o, BufSlice):
        _l, right = _split_segs(ex, o.buf.segs, o.start)
        b.segs = normalize_segs(b.segs + right)
    else:
        raise Unsupported('BytesMut append of %r' % (o,))
    return UNIT


@M.model(r'(?:bytes::)?BytesMut::resize')
def bytesmut_resize(ex, m, a, fr, dest):
    b = deref(a[0])
    n = a[1]
    cur = b.length()
    if ex.branch(b_lt(cur, n), 'resize grows'):
        b.segs = normalize_segs(b.segs + [('zero', 0, n - cur)])
    elif ex.branch(b_lt(n, cur), 'resize shrinks'):
        bytesmut_truncate(ex, m, a, fr, dest)
    return UNIT


class BufSlice(Model):
    """&mut buf[start..]"""
    ty = 'BufSlice'
    unsized = True

    def __init__(self, buf, start):
        self.buf, self.start = buf, start

    def byte_len(self):
        return self.buf.length() - self.start


@M.model(r'<(?:bytes::)?BytesMut as (?:std::ops::)?IndexMut<(?:std::ops::)?RangeFrom<usize>>>::index_mut|<(?:bytes::)?BytesMut as (?:std::ops::)?Index<(?:std::ops::)?RangeFrom<usize>>>::index')
def bytesmut_index_from(ex, m, a, fr, dest):
    b = deref(a[0])
    start = a[1].fields[0]
    if not ex.branch(b_not(b_lt(b.length(), start)), 'buf slice start'):
        raise Panic('range start index out of range for slice', fr.name)
    return BufSlice(b, start)


@M.model(r'<(?:bytes::)?BytesMut as (?:std::ops::)?DerefMut>::deref_mut|<(?:bytes::)?BytesMut as (?:std::ops::)?Deref>::deref|<(?:bytes::)?BytesMut as AsMut<\[u8\]>>::as_mut')
def bytesmut_deref(ex, m, a, fr, dest):
    return BufSlice(deref(a[0]), 0)


@M.model(r'core::slice::index::<impl (?:std::ops::)?IndexMut<(?:std::ops::)?RangeFrom<usize>> for \[u8\]>::index_mut|<\[u8\] as (?:std::ops::)?IndexMut<(?:std::ops::)?RangeFrom<usize>>>::index_mut')
def bufslice_index_from(ex, m, a, fr, dest):
    s = deref(a[0])
    if not isinstance(s, BufSlice):
        return NotImplemented
    start = a[1].fields[0]
    if not ex.branch(b_not(b_lt(s.byte_len(), start)), 'slice start'):
        raise Panic('range start index out of range for slice', fr.name)
    return BufSlice(s.buf, s.start + start)


@M.model(r'(?:bytes::)?Bytes::slice::<(?:std::ops::)?Range<usize>>')
def bytes_slice_range(ex, m, a, fr, dest):
    p = deref(a[0])
    r = a[1]
    start, end = r.fields[0], r.fields[1]
    ln = p.length(ex)
    if not ex.branch(b_not(b_lt(end, start)), 'slice order'):
        raise Panic('range start must not be greater than end', fr.name)
    if not ex.branch(b_not(b_lt(ln, end)), 'slice end'):
        raise Panic('range end out of bounds', fr.name)
    if isinstance(p, Data):
        return p.slice(ex, start, end)
    raise Unsupported('slice of %r' % (p,))


NANOS = 1000000000


# ============================================================================ jiff::Timestamp model
class TimeV(Model):
    """jiff::Timestamp as (floor seconds, nanoseconds in [0, 1e9))."""
    ty = 'Timestamp'

    def __init__(self, sec, nanos):
        self.sec, self.nanos = sec, nanos

    def clone_model(self):
        return self

    def eq_model(self, ex, other):
        other = deref(other)
        return b_and(eq(self.sec, other.sec), eq(self.nanos, other.nanos))


def install_time(ex):
    I = ex.intercepts

    def add(p, f):
        I.insert(0, (re.compile('(?:' + p + r')$'), f))

    def as_second(ex, c, a):
        t = deref(a[0])
        if not isinstance(t, TimeV):
            return NotImplemented
        # jiff truncates towards zero and reports a negative sub-second part before the epoch
        return ite(b_and(b_lt(t.sec, 0), b_lt(0, t.nanos)), t.sec + 1, t.sec)

    def subsec(ex, c, a):
        t = deref(a[0])
        if not isinstance(t, TimeV):
            return NotImplemented
        return ite(b_and(b_lt(t.sec, 0), b_lt(0, t.nanos)), t.nanos - NANOS, t.nanos)

    def new(ex, c, a):
        sec, ns = a[0], a[1]
        if not ex.branch(b_and(b_lt(-NANOS, ns), b_lt(ns, NANOS)), 'Timestamp::new nanos range'):
            return err(Opaque('jiff::Error'))
        total_floor = ite(b_lt(ns, 0), sec - 1, sec)
        n2 = ite(b_lt(ns, 0), ns + NANOS, ns)
        lo, hi = -377705023201, 253402207200
        if not ex.branch(b_and(b_not(b_lt(total_floor, lo)), b_not(b_lt(hi, total_floor))), 'Timestamp::new range'):
            return err(Opaque('jiff::Error'))
        return ok(TimeV(total_floor, n2))
    def from_second(ex, c, a):
        lo, hi = -377705023201, 253402207200
        if not ex.branch(b_and(b_not(b_lt(a[0], lo)), b_not(b_lt(hi, a[0]))), 'Timestamp::from_second range'):
            return err(Opaque('jiff::Error'))
        return ok(TimeV(a[0], 0))
    add(r'(?:jiff::)?Timestamp::from_second', from_second)
    add(r'(?:jiff::)?Timestamp::as_second', as_second)
    add(r'(?:jiff::)?Timestamp::subsec_nanosecond', subsec)
    add(r'(?:jiff::)?Timestamp::new', new)

    def ts_eq(ex, c, a):
        x, y = deref(a[0]), deref(a[1])
        if isinstance(x, TimeV) and isinstance(y, TimeV):
            r = x.eq_model(ex, y)
            return r if c.endswith('eq') else b_not(r)
        return NotImplemented
    add(r'<(?:jiff::)?Timestamp as PartialEq>::(eq|ne)', ts_eq)
    def ts_cmp_val(ex, x, y):
        # lexicographic on (seconds, nanoseconds), decided by forking like the derived Ord
        if ex.branch(b_lt(x.sec, y.sec), 'ts sec lt'):
            return -1
        if ex.branch(b_lt(y.sec, x.sec), 'ts sec gt'):
            return 1
        if ex.branch(b_lt(x.nanos, y.nanos), 'ts ns lt'):
            return -1
        if ex.branch(b_lt(y.nanos, x.nanos), 'ts ns gt'):
            return 1
        return 0

    def ts_cmp(ex, c, a):
        x, y = deref(a[0]), deref(a[1])
        if not (isinstance(x, TimeV) and isinstance(y, TimeV)):
            return NotImplemented
        v = ts_cmp_val(ex, x, y)
        op = c.rsplit('::', 1)[1]
        if op == 'partial_cmp':
            return M.some(M.ordering(v))
        if op == 'cmp':
            return M.ordering(v)
        return {'lt': v < 0, 'le': v <= 0, 'gt': v > 0, 'ge': v >= 0}[op]
    add(r'<(?:jiff::)?Timestamp as (?:PartialOrd|Ord)>::(partial_cmp|cmp|lt|le|gt|ge)', ts_cmp)
    add(r'<(?:jiff::)?Timestamp as Clone>::clone', lambda ex, c, a: deref(a[0]))
    add(r'i32::cast_unsigned|core::num::<impl i32>::cast_unsigned', lambda ex, c, a: wrap(a[0], 'u32'))


