"""Parser for the text rustc prints with -Zunpretty=mir.

Everything here is syntactic: it turns the dump into Function objects holding
basic blocks of pre-parsed statements and terminators.  Nothing is cached across
runs; the dump is regenerated from /repo's working tree by bin/mirdump.
"""
import re

BINOPS = {'Add', 'Sub', 'Mul', 'Div', 'Rem', 'BitXor', 'BitAnd', 'BitOr', 'Shl', 'Shr',
          'Eq', 'Lt', 'Le', 'Ne', 'Ge', 'Gt', 'Cmp', 'Offset',
          'AddWithOverflow', 'SubWithOverflow', 'MulWithOverflow',
          'AddUnchecked', 'SubUnchecked', 'MulUnchecked', 'ShlUnchecked', 'ShrUnchecked'}
UNOPS = {'Not', 'Neg', 'PtrMetadata', 'Len'}


class ParseError(Exception):
    pass


# ----------------------------------------------------------------------------- lexical helpers
_CHAR_LIT = re.compile(r"'(\\u\{[0-9a-fA-F]+\}|\\x[0-9a-fA-F]{2}|\\.|[^\\'])'")
OPEN = '([{<'
CLOSE = ')]}>'


def skip_literal(s, i):
    """If a string / byte-string / char literal starts at s[i] return the index just past it, else None."""
    c = s[i]
    if c == '"' or (c == 'b' and s[i + 1:i + 2] == '"' and (i == 0 or not (s[i - 1].isalnum() or s[i - 1] == '_'))):
        j = i + (2 if c == 'b' else 1)
        while j < len(s):
            if s[j] == '\\':
                j += 2
                continue
            if s[j] == '"':
                return j + 1
            j += 1
        raise ParseError('unterminated string in ' + s)
    if c == "'":
        m = _CHAR_LIT.match(s, i)
        if m:
            return m.end()
    return None


def scan_balanced(s, i):
    """s[i] is an opening bracket; return index just past its matching close (handles '->' and literals)."""
    depth = 0
    n = len(s)
    while i < n:
        j = skip_literal(s, i) if s[i] in '"\'b' else None
        if j is not None:
            i = j
            continue
        c = s[i]
        if c in OPEN:
            depth += 1
        elif c in CLOSE:
            if c == '>' and i > 0 and s[i - 1] in '-=':
                pass  # '->' / '=>'
            else:
                depth -= 1
                if depth == 0:
                    return i + 1
        i += 1
    raise ParseError('unbalanced: ' + s)


def split_top(s, sep=','):
    """Split s at top-level occurrences of sep."""
    out, cur, i, n, depth = [], [], 0, len(s), 0
    start = 0
    while i < n:
        j = skip_literal(s, i) if s[i] in '"\'b' else None
        if j is not None:
            i = j
            continue
        c = s[i]
        if c in OPEN:
            depth += 1
        elif c in CLOSE and not (c == '>' and i > 0 and s[i - 1] in '-='):
            depth -= 1
        elif c == sep and depth == 0:
            out.append(s[start:i].strip())
            start = i + 1
        i += 1
    last = s[start:].strip()
    if last:
        out.append(last)
    return out


_ESC = {'n': '\n', 't': '\t', 'r': '\r', '0': '\0', '\\': '\\', '"': '"', "'": "'"}


def unescape(body, as_bytes=False):
    """Unescape the body of a Rust debug-printed str / byte-str literal."""
    out = []
    i, n = 0, len(body)
    while i < n:
        c = body[i]
        if c != '\\':
            if as_bytes:
                out.extend(c.encode('utf-8'))
            else:
                out.append(c)
            i += 1
            continue
        e = body[i + 1]
        if e == 'x':
            v = int(body[i + 2:i + 4], 16)
            out.append(v if as_bytes else chr(v))
            i += 4
        elif e == 'u':
            j = body.index('}', i)
            v = int(body[i + 3:j], 16)
            if as_bytes:
                out.extend(chr(v).encode('utf-8'))
            else:
                out.append(chr(v))
            i = j + 1
        elif e in _ESC:
            v = _ESC[e]
            if as_bytes:
                out.append(ord(v))
            else:
                out.append(v)
            i += 2
        else:
            raise ParseError('escape? ' + body)
    return bytes(out) if as_bytes else ''.join(out)


# ----------------------------------------------------------------------------- places / operands
class Place:
    __slots__ = ('local', 'proj', 'text')

    def __init__(self, local, proj, text):
        self.local, self.proj, self.text = local, proj, text

    def __repr__(self):
        return self.text


_place_cache = {}


def parse_place(s):
    s = s.strip()
    p = _place_cache.get(s)
    if p is None:
        (loc, proj), end = _place(s, 0)
        # trailing index projections  p[_3]  p[1 of 2]
        if end != len(s):
            raise ParseError('place trailing: %r at %d' % (s, end))
        p = Place(loc, tuple(proj), s)
        _place_cache[s] = p
    return p


def _place(s, p):
    if s[p] == '_':
        m = re.compile(r'_\d+').match(s, p)
        res, p = (int(m.group(0)[1:]), []), m.end()
    elif s[p] == '(':
        p += 1
        if s[p] == '*':
            (loc, pr), p = _place(s, p + 1)
            if s[p] != ')':
                raise ParseError('deref: ' + s)
            res, p = (loc, pr + [('deref',)]), p + 1
        else:
            (loc, pr), p = _place(s, p)
            m = re.compile(r'\.(\d+): ').match(s, p)
            if m:
                # type runs to the matching close paren of this group
                q = m.end()
                depth = 0
                while True:
                    c = s[q]
                    if c in OPEN:
                        depth += 1
                    elif c in CLOSE and not (c == '>' and s[q - 1] in '-='):
                        if depth == 0:
                            break
                        depth -= 1
                    q += 1
                ty = s[m.end():q]
                res, p = (loc, pr + [('field', int(m.group(1)), ty)]), q + 1
            else:
                m = re.compile(r' as ([\w#]+)\)').match(s, p)
                if not m:
                    raise ParseError('place? %r at %d' % (s, p))
                res, p = (loc, pr + [('downcast', m.group(1))]), m.end()
    else:
        raise ParseError('place? %r at %d' % (s, p))
    # suffix index projections
    while p < len(s) and s[p] == '[':
        q = scan_balanced(s, p)
        inner = s[p + 1:q - 1]
        m = re.match(r'(-?\d+) of (\d+)$', inner)
        if m:
            res = (res[0], res[1] + [('constidx', int(m.group(1)), int(m.group(2)), inner.startswith('-'))])
        elif re.match(r'_\d+$', inner):
            res = (res[0], res[1] + [('index', int(inner[1:]))])
        elif ':' in inner:
            a, b = inner.split(':')
            res = (res[0], res[1] + [('subslice', int(a), int(b) if b.lstrip('-').isdigit() else None, b.startswith('-'))])
        else:
            raise ParseError('index proj? ' + s)
        p = q
    return res, p


INT_TYPES = {'u8': 8, 'u16': 16, 'u32': 32, 'u64': 64, 'u128': 128, 'usize': 64,
             'i8': 8, 'i16': 16, 'i32': 32, 'i64': 64, 'i128': 128, 'isize': 64}
_INT_CONST = re.compile(r'const (-?\d+)_(usize|isize|u\d+|i\d+)$')


def parse_operand(s):
    """-> ('copy'|'move', Place) | ('const', kind, value, text)"""
    s = s.strip()
    if s.startswith('no_retag '):
        s = s[9:]
    if s.startswith('copy '):
        return ('copy', parse_place(s[5:]))
    if s.startswith('move '):
        return ('move', parse_place(s[5:]))
    if s.startswith('const '):
        return parse_const(s)
    if s and (s[0].isalpha() or s[0] in '<_') and not s.startswith(('&', '(')):
        return ('const', 'named', s, s)      # bare function item
    raise ParseError('operand? ' + s)


def parse_const(s):
    m = _INT_CONST.match(s)
    if m:
        return ('const', 'int', int(m.group(1)), m.group(2))
    body = s[6:]
    if body == 'true':
        return ('const', 'bool', True, 'bool')
    if body == 'false':
        return ('const', 'bool', False, 'bool')
    if body == '()':
        return ('const', 'unit', None, '()')
    if body.startswith('"') and body.endswith('"'):
        return ('const', 'str', unescape(body[1:-1]), 'str')
    if body.startswith('b"') and body.endswith('"'):
        return ('const', 'bytes', unescape(body[2:-1], True), 'bytes')
    m = _CHAR_LIT.fullmatch(body)
    if m:
        return ('const', 'char', ord(unescape(m.group(1))), 'char')
    m = re.match(r'\{(alloc\d+): (.*)\}$', body)
    if m:
        return ('const', 'alloc', m.group(1), m.group(2))
    m = re.match(r'(-?[\d.]+(?:e-?\d+)?)(f32|f64)$', body)
    if m:
        return ('const', 'float', float(m.group(1)), m.group(2))
    m = re.match(r'(.*)::promoted\[(\d+)\]$', body)
    if m:
        return ('const', 'promoted', int(m.group(2)), body)
    # named constant, function item, unit struct, ZST ...
    return ('const', 'named', body, body)


# ----------------------------------------------------------------------------- rvalues
def parse_rvalue(s):
    s = s.strip()
    if s.startswith('no_retag '):
        s = s[9:]
    if s.startswith('&raw const (fake) '):
        # address taken only for a pattern-matching/indexing check (never written through): an ordinary raw reference
        return ('ref', 'raw', parse_place(s[18:]))
    if s.startswith('&raw const '):
        return ('ref', 'raw', parse_place(s[11:]))
    if s.startswith('&raw mut '):
        return ('ref', 'rawmut', parse_place(s[9:]))
    if s.startswith('&mut '):
        return ('ref', 'mut', parse_place(s[5:]))
    if s.startswith('&fake shallow '):
        return ('ref', 'shared', parse_place(s[14:]))
    if s.startswith('&'):
        return ('ref', 'shared', parse_place(s[1:]))
    if s.startswith('deref_copy '):
        return ('use', ('copy', parse_place(s[11:])))
    if s.startswith(('copy ', 'move ', 'const ')):
        # cast?   <operand> as <type> (<CastKind>)
        m = re.match(r'(.*) as (.*) \(([A-Za-z]+(?:\(.*\))?)\)$', s)
        if m and _looks_like_operand(m.group(1)):
            return ('cast', parse_operand(m.group(1)), m.group(2), m.group(3))
        return ('use', parse_operand(s))
    if s.startswith('discriminant('):
        return ('discriminant', parse_place(s[13:-1]))
    m = re.match(r'([A-Z][A-Za-z]*)\(', s)
    if m and m.group(1) in BINOPS:
        a, b = split_top(s[len(m.group(1)) + 1:-1])
        return ('binop', m.group(1), parse_operand(a), parse_operand(b))
    if m and m.group(1) in UNOPS:
        inner = s[len(m.group(1)) + 1:-1]
        if m.group(1) == 'Len':
            return ('len', parse_place(inner))
        return ('unop', m.group(1), parse_operand(inner))
    if s.startswith('['):
        inner = s[1:-1]
        parts = split_top(inner, ';')
        if len(parts) == 2:
            return ('repeat', parse_operand(parts[0]), parts[1])
        return ('array', [parse_operand(x) for x in split_top(inner)])
    if s.startswith('('):
        inner = s[1:-1]
        return ('tuple', [parse_operand(x) for x in split_top(inner)])
    if s.startswith('{closure@') or s.startswith('{coroutine@') or s.startswith('{async '):
        end = scan_balanced(s, 0)
        name = s[:end]
        rest = s[end:].strip()
        ops = []
        if rest:
            if not (rest.startswith('{') and rest.endswith('}')):
                raise ParseError('closure agg? ' + s)
            for f in split_top(rest[1:-1]):
                ops.append(parse_operand(f.split(': ', 1)[1]))
        return ('closure', name, ops)
    # aggregate: Path(args) | Path { f: v, ... } | Path
    path, rest = _split_path(s)
    if rest == '':
        return ('agg', path, [], None)
    if rest.startswith('('):
        return ('agg', path, [parse_operand(x) for x in split_top(rest[1:-1])], None)
    if rest.startswith('{'):
        names, ops = [], []
        for f in split_top(rest[1:-1]):
            k, v = f.split(': ', 1)
            names.append(k.strip())
            ops.append(parse_operand(v))
        return ('agg', path, ops, names)
    raise ParseError('rvalue? ' + s)


def _looks_like_operand(s):
    try:
        parse_operand(s)
        return True
    except ParseError:
        return False


def _split_path(s):
    """Split 'a::b::<T>::C(args)' into ('a::b::<T>::C', '(args)')."""
    i, n = 0, len(s)
    while i < n:
        c = s[i]
        if c in '<{[':
            i = scan_balanced(s, i)
            continue
        if c == '(':
            return s[:i], s[i:]
        if c == ' ':
            return s[:i], s[i:].strip()
        i += 1
    return s, ''


# ----------------------------------------------------------------------------- statements / terminators
_TARGETS = re.compile(r' -> (\[.*\]|unwind [a-z() ]+|bb\d+)$')


def parse_call(t):
    """dest = callee(args) -> [return: bbN, unwind ...]  ->  (dest Place|None, callee, [operands], ret_bb|None)"""
    m = _TARGETS.search(t)
    if not m:
        raise ParseError('call targets? ' + t)
    head, targets = t[:m.start()], m.group(1)
    ret = None
    mm = re.search(r'return: (bb\d+)', targets)
    if mm:
        ret = mm.group(1)
    lhs, rhs = split_assign(head)
    # find first '(' at bracket depth 0 in rhs
    i, n = 0, len(rhs)
    while i < n:
        c = rhs[i]
        if c in '<{[':
            i = scan_balanced(rhs, i)
            continue
        if c == '(':
            break
        i += 1
    else:
        raise ParseError('call? ' + t)
    callee = rhs[:i]
    end = scan_balanced(rhs, i)
    if end != len(rhs):
        raise ParseError('call trailing? ' + t)
    argstr = rhs[i + 1:end - 1]
    args = [parse_operand(a) for a in split_top(argstr)] if argstr.strip() else []
    return (parse_place(lhs), callee, args, ret)


def split_assign(s):
    """Split 'place = rvalue' at the assignment (the place may contain ' = ' inside types)."""
    if s[0] == '(':
        end = scan_balanced(s, 0)
        while end < len(s) and s[end] == '[':
            end = scan_balanced(s, end)
    else:
        end = re.match(r'_\d+', s).end()
        while end < len(s) and s[end] == '[':
            end = scan_balanced(s, end)
    if s[end:end + 3] != ' = ':
        raise ParseError('assign? ' + s)
    return s[:end], s[end + 3:]


def parse_stmt(s):
    if s.startswith(('StorageLive(', 'StorageDead(', 'nop', 'ConstEvalCounter', 'Retag(', 'PlaceMention(',
                     'FakeRead(', 'AscribeUserType(', 'Coverage', 'BackwardIncompatibleDropHint')):
        return None
    if s.startswith('Deinit('):
        return None
    if s.startswith('assume('):
        return ('assume', parse_operand(s[7:-1]))
    m = re.match(r'discriminant\((.*)\) = (\d+)$', s)
    if m:
        return ('setdiscr', parse_place(m.group(1)), int(m.group(2)))
    if ' = ' not in s:
        raise ParseError('stmt? ' + s)
    lhs, rhs = split_assign(s)
    return ('assign', parse_place(lhs), parse_rvalue(rhs))


def parse_terminator(t):
    if t == 'return':
        return ('return',)
    if t == 'unreachable':
        return ('unreachable',)
    if t.startswith('resume') or t.startswith('terminate') or t.startswith('abort'):
        return ('resume',)
    m = re.match(r'goto -> (bb\d+)$', t)
    if m:
        return ('goto', m.group(1))
    m = re.match(r'switchInt\((.*)\) -> \[(.*)\]$', t)
    if m:
        arms = []
        for a in m.group(2).split(', '):
            k, tgt = a.split(': ')
            arms.append((None if k == 'otherwise' else int(k), tgt))
        return ('switch', parse_operand(m.group(1)), arms)
    if t.startswith('drop('):
        m = _TARGETS.search(t)
        place = t[5:m.start() - 1]
        mm = re.search(r'return: (bb\d+)', m.group(1))
        return ('drop', parse_place(place), mm.group(1) if mm else None)
    if t.startswith('assert('):
        m = _TARGETS.search(t)
        inner = t[7:m.start() - 1]
        parts = split_top(inner)
        cond = parts[0]
        neg = cond.startswith('!')
        if neg:
            cond = cond[1:]
        msg = parts[1] if len(parts) > 1 else ''
        mm = re.search(r'success: (bb\d+)', m.group(1))
        return ('assert', neg, parse_operand(cond), msg, mm.group(1))
    if t.startswith('falseEdge') or t.startswith('falseUnwind'):
        m = re.search(r'real: (bb\d+)', t) or re.search(r'-> \[?(bb\d+)', t)
        return ('goto', m.group(1))
    if t.startswith('yield('):
        raise ParseError('yield terminator (coroutine not lowered)')
    if t.startswith('tailcall '):
        raise ParseError('tailcall')
    if ' = ' in t and _TARGETS.search(t):
        return ('call',) + parse_call(t)
    raise ParseError('terminator? ' + t)


class Function:
    __slots__ = ('name', 'kind', 'header', 'argc', 'ret_ty', 'arg_tys', 'local_tys', 'blocks', 'body_text',
                 'allocs', '_parsed', 'span', 'lineno')

    def __init__(self, name, kind, header, body_text, lineno):
        self.name, self.kind, self.header, self.body_text, self.lineno = name, kind, header, body_text, lineno
        self._parsed = False
        self.blocks = None

    def parse(self):
        if self._parsed:
            return self
        self.local_tys = {}
        # header args
        self.arg_tys = []
        self.ret_ty = None
        if self.kind == 'fn':
            i = self.header.index(self.name) + len(self.name)
            end = scan_balanced(self.header, i)
            args = self.header[i + 1:end - 1]
            for a in split_top(args):
                m = re.match(r'(?:mut )?_(\d+): (.*)$', a, re.S)
                self.local_tys[int(m.group(1))] = m.group(2)
                self.arg_tys.append(m.group(2))
            rest = self.header[end:].strip()
            if rest.startswith('->'):
                self.ret_ty = rest[2:].strip().rstrip('{').strip()
        else:
            m = re.search(r': (.*) = $', self.header.rstrip('{').rstrip() + ' ')
            self.ret_ty = self.header.split(self.name, 1)[1].lstrip(': ').rsplit(' =', 1)[0]
        self.argc = len(self.arg_tys)
        blocks = {}
        cur = None
        for raw in self.body_text.split('\n'):
            line = raw.strip()
            if not line:
                continue
            if cur is None:
                m = re.match(r'let (?:mut )?_(\d+): (.*);$', line)
                if m:
                    self.local_tys[int(m.group(1))] = m.group(2)
                    continue
                m = re.match(r'(bb\d+)(?: \(cleanup\))?: \{$', line)
                if m:
                    cur = m.group(1)
                    blocks[cur] = []
                continue
            if line == '}':
                cur = None
                continue
            blocks[cur].append(line.rstrip(';') if line.endswith(';') else line)
        parsed = {}
        for bb, lines in blocks.items():
            parsed[bb] = (lines[:-1], lines[-1])
        self.blocks = parsed  # raw; compiled lazily per block by the interpreter
        self._parsed = True
        return self


class Module:
    """All functions / consts / statics of one MIR dump."""

    def __init__(self, text):
        self.fns = {}        # full printed name -> Function
        self.static_allocs = {}   # allocN -> static name
        self.by_last = {}
        self._split(text)

    def _split(self, text):
        lines = text.split('\n')
        i, n = 0, len(lines)
        hdr = re.compile(r'^(fn|const|static(?: mut)?) ')
        while i < n:
            l = lines[i]
            m = hdr.match(l)
            if m:
                kind = m.group(1).split()[0]
                if l.endswith('{'):
                    j = i + 1
                    while lines[j] != '}':
                        j += 1
                    body = '\n'.join(lines[i + 1:j])
                    name = self._name_of(kind, l)
                    if name is not None:
                        f = Function(name, kind, l, body, i + 1)
                        self.fns[name] = f
                    i = j + 1
                    continue
                else:
                    # one-line const:  const NAME: T = const X;
                    nm = self._name_of(kind, l)
                    mm = re.search(r' = (const .*);$', l)
                    if nm and mm:
                        f = Function(nm, kind, l, '    bb0: {\n        _0 = %s;\n        return;\n    }' % mm.group(1), i + 1)
                        self.fns[nm] = f
            else:
                mm = re.match(r'^(alloc\d+) \(static: (.*?), size', l)
                if mm:
                    self.static_allocs[mm.group(1)] = mm.group(2)
            i += 1
        for name in self.fns:
            last = strip_generics(name).split('::')[-1]
            self.by_last.setdefault(last, []).append(name)

    @staticmethod
    def _name_of(kind, header):
        s = header[len(kind) + 1:]
        if kind != 'fn':
            s = header.split(' ', 1)[1]
            if s.startswith('mut '):
                s = s[4:]
        # name runs up to the top-level '(' (fn) or ': ' (const/static)
        i, n = 0, len(s)
        while i < n:
            c = s[i]
            if c in '<{[':
                i = scan_balanced(s, i)
                continue
            if kind == 'fn' and c == '(':
                return s[:i]
            if kind != 'fn' and s.startswith(': ', i):
                return s[:i]
            i += 1
        return None


def strip_generics(path):
    """Remove ::<...> turbofish and <...> generic argument lists that directly follow an identifier."""
    out = []
    i, n = 0, len(path)
    while i < n:
        c = path[i]
        if c == '<' and path.startswith('<impl ', i):
            j = scan_balanced(path, i)
            out.append(path[i:j])
            i = j
            continue
        if c == '<' and i > 0 and (path[i - 1].isalnum() or path[i - 1] == '_' or path[i - 1] == ':'):
            j = scan_balanced(path, i)
            if path[i - 1] == ':':
                # turbofish '::<..>' : drop the preceding '::' as well
                while out and out[-1] == ':':
                    out.pop()
            i = j
            continue
        out.append(c)
        i += 1
    return ''.join(out)
